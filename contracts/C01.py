"""C01 - pair counts are exact and complete.

Top-down decomposition (every arrow is a contract proved on the current source; F is the pair-count distribution of the two
point sets of a call:  F(r) = sum of w_p w_q over all pairs with chord distance <= r):

  autocorrelate / crosscorrelate   which catalogs are linked, which pairs of catalogs are counted, which slot of CorrFunc
    -> PatchLinkage.from_catalogs  every patch pair that can hold a pair within the largest angle is linked   (pruning lemma)
       get_max_angle               >= every angle process_patch_pair uses (largest scale angle over all bin centres)
    -> iter_patch_id_pairs         every linked pair exactly once (auto: only i < j), every (i, i) once, nothing else, the linkage
                                   itself unchanged: any number of patches, any reflexive link structure (ghost dict / set model,
                                   three loop invariants over the count of yields); also exhaustively on the real function, N <= 5
    -> count_pairs                 cell (i, j) of every scale = the counts of task (i, j), halved on the diagonal iff auto,
                                   0 if no task; sum_weights columns from the tasks; any arrival order
    -> process_patch_pair          bin b: trees b of both patches, angles of all scales at the centre of bin b
    -> AngularTree.count           result[s] = F(chord(ang_max_s)) - F(chord(ang_min_s))      (telescoping over the fine bins)
                                   weighted: sum over the fine bins inside the scale of omega_k (F(r_k+1) - F(r_k)),
                                   omega_k = mid_k^alpha / sum_m mid_m^alpha, mid_k the logarithmic centre
       dispatch_counts             per-bin counts from cumulative / differential KD-tree output
       get_counts_for_limits       sum of the bins between the indices of the two limits
    -> build_trees (C10)           tree b holds exactly the records of bin b, sum_weights the true sum
ASSUMED: scipy KDTree.count_neighbors (chord distance <= r; non-cumulative: first bin [0, r_0], then (r_k-1, r_k]).
"""
from __future__ import annotations

import itertools

import z3

from pyvc import core, shadow, sigma, realfn
from pyvc.core import SNum, SBool, Ctx, EndPath, Unsupported, to_term, tob, to_real
from pyvc.arrays import SArr, SRec, bv, forall, dim_term
from pyvc.builtins_shim import vc_len, SSeq
from .common import And, Or, Implies, Not, ForAll, Min, mod, unit, call, Raised, expect_no_exception, fail, use_loops, LoopSpec, Patches
from . import containers_common as CC

P = "C01"
EXPLANATION = (
    "Deductive, function by function from the measurement entry points down to the KD-tree call, for symbolic numbers of "
    "scales, fine bins, redshift bins and patches: AngularTree.count returns F(chord(ang_max)) - F(chord(ang_min)) per scale "
    "(telescoping lemma over the fine bins; with weighting the omega-weighted sum), process_patch_pair pairs tree b with tree b "
    "at the angles of the centre of bin b, count_pairs writes every task into its own cell for any arrival order, get_max_angle "
    "dominates every angle used, from_catalogs links every patch pair whose extents allow a pair within that angle (metric "
    "lemma over all catalogs), autocorrelate/crosscorrelate count the stated catalog pairs into the stated slots. "
    "iter_patch_id_pairs yields every linked pair exactly once for any number of patches and any reflexive link structure (loop "
    "invariants over a ghost count of yields; python dict/set semantics assumed), and is also run exhaustively for all symmetric "
    "reflexive link graphs of up to 5 patches (bounded); the composition is checked against brute force on the real library (bounded).")
TRUSTED = ["scipy.spatial.KDTree.count_neighbors (chord <= r, cumulative / per-bin semantics, weights tuple)",
           "np.argmin first minimum", "np.diff", "build_trees contract (C10)", "Metadata invariant of every patch (C12)",
           "angular distance is a metric on the sphere (symmetry, triangle inequality)", "iter_unordered contract (C05)"]
NOT_DECIDED = ["floating-point ties between a pair separation and a scale limit; exactness of 10**log10(x)",
               "ang_min = 0 (log10(0) is outside the real-number model); get_ang_bins is proved for positive limits",
               "termination of iter_patch_id_pairs", "KD-tree internals"]
ASSUMPTIONS = []


@unit(P, "sigma_schemas", kind="lemma")
def u_sigma(ctx):
    """induction proofs of the sum lemmas used below (telescoping, ...)"""
    ctx.canary()
    sigma.prove_schemas(ctx)


# ---------------------------------------------------------------------------------------------------------
# KD-tree contract and the fine-bin fixtures
# ---------------------------------------------------------------------------------------------------------

def fine_bins(ctx, hint="bins"):
    """strictly increasing positive fine bin edges r_0 < ... < r_{m-1}, m >= 2"""
    m = ctx.fresh_int("num_edges", lo=2, size=True)
    bins = SArr.fresh(ctx, hint, (m,), "f", register=True)
    t, u = bv("t"), bv("u")
    e = bins._elem
    ctx.assume(forall([t, u], z3.Implies(z3.And(t >= 0, t < u, u < m.t), e(t) < e(u)), patterns=[z3.MultiPattern(e(t), e(u))]), "contract:get_ang_bins strictly increasing")
    ctx.assume(forall([t], z3.Implies(z3.And(t >= 0, t < m.t), e(t) > 0), patterns=[e(t)]), "contract:get_ang_bins positive")
    return bins, m


def kd_counts(ctx, F, radii, cumulative):
    """ASSUMED KDTree.count_neighbors contract over the pair distribution F"""
    ctx.trust("scipy KDTree.count_neighbors: cumulative -> F(r_k); otherwise F(r_0), F(r_k) - F(r_k-1)")
    re = radii._elem
    if cumulative:
        return SArr(radii.shape, lambda k: F(re(k)), "f")
    return SArr(radii.shape, lambda k: z3.If(k == 0, F(re(k)), F(re(k)) - F(re(k - 1))), "f")


@unit(P, "dispatch_counts", fuc=["yaw.catalog.trees:dispatch_counts"], cases=[dict(cumulative=c) for c in (False, True)], trusted=["np.diff"])
def u_dispatch(ctx, cumulative):
    """both output conventions of the KD-tree give the same per-bin counts: out[k] = F(r_k+1) - F(r_k), one entry per fine bin"""
    T = mod("yaw.catalog.trees")
    bins, m = fine_bins(ctx)
    F = z3.Function("F", z3.RealSort(), z3.RealSort())
    counts = kd_counts(ctx, F, bins, cumulative)
    ctx.canary()
    out = expect_no_exception(ctx, call(T.dispatch_counts, counts, cumulative), "C01/dispatch_counts")
    ctx.check("C01/dispatch_counts/post:one_entry_per_fine_bin", out.shape[0] == m - 1)
    k = ctx.fresh_int("k", lo=0)
    ctx.assume(k.t < m.t - 1, "post:arbitrary fine bin")
    e = bins._elem
    ctx.check("C01/dispatch_counts/post:pairs_in_(r_k, r_k+1]", SBool(out._elem(k.t) == F(e(k.t + 1)) - F(e(k.t))))


def limits_fixture(ctx, bins, m):
    """S scales whose limits are fine-bin edges: lo(s) < hi(s) are the indices of ang_min_s / ang_max_s in the bins"""
    S = ctx.fresh_int("num_scales", lo=1, size=True)
    I = z3.IntSort()
    lo, hi = ctx.fresh_fn("idx_min", I, I), ctx.fresh_fn("idx_max", I, I)
    s = bv("s")
    ctx.assume(forall([s], z3.Implies(z3.And(s >= 0, s < S.t), z3.And(lo(s) >= 0, lo(s) < hi(s), hi(s) < m.t)), patterns=[lo(s)]), "contract:get_ang_bins contains every limit")
    e = bins._elem
    limits = SArr((S, 2), lambda s_, c: z3.If(c == 0, e(lo(s_)), e(hi(s_))), "f")
    return S, lo, hi, limits


LIMITS_SITE = "yaw.catalog.trees:get_counts_for_limits#1"


def limits_spec(counts, lo, hi):
    def inv(L):
        t = bv("t")
        fc = L.final_counts._elem
        ce = counts._elem
        # entries already written hold the sum of the fine bins between the two limit indices
        of = L.old.final_counts._elem
        return dict(written=SBool(z3.ForAll([t], z3.Implies(z3.And(t >= 0, t < to_term(L.j)),
                                                            fc(t) == sigma.total(lambda u: ce(lo(t) + u), hi(t) - lo(t))))),
                    # frame: entries of scales not visited yet hold what they held before the loop
                    untouched=SBool(z3.ForAll([t], z3.Implies(t >= to_term(L.j), fc(t) == of(t)))))
    return LoopSpec(inv=inv)


@unit(P, "get_counts_for_limits", fuc=["yaw.catalog.trees:get_counts_for_limits"], trusted=["np.argmin"])
def u_limits(ctx):
    """result[s] = sum of the per-bin counts of the fine bins between the index of ang_min_s and the index of ang_max_s (the
    nearest edge to a limit that is itself an edge is that edge, because the edges are strictly increasing)"""
    T = mod("yaw.catalog.trees")
    bins, m = fine_bins(ctx)
    S, lo, hi, limits = limits_fixture(ctx, bins, m)
    counts = SArr.fresh(ctx, "counts", (m - 1,), "f", register=True)
    ctx.canary()
    with use_loops({LIMITS_SITE: limits_spec(counts, lo, hi)}):
        out = expect_no_exception(ctx, call(T.get_counts_for_limits, counts, bins, limits), "C01/get_counts_for_limits")
    ctx.check("C01/get_counts_for_limits/post:one_entry_per_scale", out.shape[0] == S)
    s = ctx.fresh_int("s", lo=0)
    ctx.assume(s.t < S.t, "post:arbitrary scale")
    ce = counts._elem
    ctx.check("C01/get_counts_for_limits/post:sum_of_the_fine_bins_inside_the_scale",
              SBool(out._elem(s.t) == sigma.total(lambda u: ce(lo(s.t) + u), hi(s.t) - lo(s.t))))


# ---------------------------------------------------------------------------------------------------------
# AngularTree.count
# ---------------------------------------------------------------------------------------------------------

class KD:
    def __init__(self, tag):
        self.tag = tag


@unit(P, "AngularTree.count", fuc=["yaw.catalog.trees:AngularTree.count", "yaw.catalog.trees:dispatch_counts", "yaw.coordinates:AngularDistances.to_3d"],
      cases=[dict(weighted=w, few=f) for w in (False, True) for f in (False, True)], trusted=["KDTree.count_neighbors", "get_ang_bins contract"])
def u_count(ctx, weighted, few):
    """for every scale: F(chord(ang_max)) - F(chord(ang_min)), i.e. the weighted number of pairs with separation in
    (ang_min, ang_max]; with separation weighting every fine bin inside the scale contributes omega_k times its pairs.
    Both KD-tree conventions (cumulative for < 8 edges) are covered."""
    T = mod("yaw.catalog.trees")
    CO = mod("yaw.coordinates")
    bins, m = fine_bins(ctx)
    ctx.assume((m.t < 8) if few else (m.t >= 8), "case:number of edges")
    S, lo, hi, limits = limits_fixture(ctx, bins, m)
    F = z3.Function("F", z3.RealSort(), z3.RealSort())
    chord = lambda a: 2 * realfn.F["sin"](a / 2)  # noqa: E731
    t1, t2 = T.AngularTree.__new__(T.AngularTree), T.AngularTree.__new__(T.AngularTree)
    t1.tree, t2.tree = KDStub("A"), KDStub("B")
    t1.weights, t2.weights = "W1", None
    log = {}

    def kd_hook(self, other, r, weights, cumulative):
        log["kd"] = (self, other, r, weights, cumulative)
        return KDResult(kd_counts(ctx, F, r, cumulative))
    ang_min = SArr((S,), lambda s: limits._elem(s, z3.IntVal(0)), "f")
    ang_max = SArr((S,), lambda s: limits._elem(s, z3.IntVal(1)), "f")
    alpha = ctx.fresh_real("weight_scale") if weighted else None
    res_w = ctx.fresh_int("weight_res", lo=1)
    name = "C01/AngularTree.count"

    def get_ang_bins(ang_range, weight_scale, weight_res):
        log["bins_args"] = (ang_range, weight_scale, weight_res)
        return bins

    def get_counts_for_limits(counts, ang_bins, ang_limits):
        log["final"] = (counts, ang_bins, ang_limits)
        ce = counts._elem
        return SArr((S,), lambda s: sigma.total(lambda u: ce(lo(s) + u), hi(s) - lo(s)), "f")

    def parse(amin, amax):
        log["parse"] = (amin, amax)
        return limits

    def logarithmic_mid(edges):
        mid = SArr.fresh(ctx, "mid", (edges.shape[0] - 1,), "f")
        t = bv("t")
        ctx.assume(forall([t], z3.Implies(z3.And(t >= 0, t < m.t - 1), mid._elem(t) > 0), patterns=[mid._elem(t)]), "contract:logarithmic_mid positive")
        log["mids"] = (edges, mid)
        return mid
    ctx.ghost["kdtree_count"] = kd_hook
    with Patches() as pt:
        pt.set(T, "logarithmic_mid", logarithmic_mid)
        pt.set(T, "get_ang_bins", get_ang_bins)
        pt.set(T, "get_counts_for_limits", get_counts_for_limits)
        pt.set(T, "parse_ang_limits", parse)
        ctx.canary()
        out = expect_no_exception(ctx, call(t1.count, t2, ang_min, ang_max, weight_scale=alpha, weight_res=res_w), name)
    ctx.check(f"{name}/post:limits_parsed_from_the_arguments", log["parse"][0] is ang_min and log["parse"][1] is ang_max)
    ctx.check(f"{name}/post:fine_bins_from_limits_and_weighting", log["bins_args"][0] is limits and log["bins_args"][1] is alpha and log["bins_args"][2] is res_w)
    me, other, r, weights, cumulative = log["kd"]
    ctx.check(f"{name}/post:counted_between_the_two_trees_with_their_weights", me is t1.tree and other is t2.tree and tuple(weights) == ("W1", None))
    k = ctx.fresh_int("k", lo=0)
    ctx.assume(k.t < m.t, "post:arbitrary edge")
    ctx.check(f"{name}/post:radii_are_the_chords_of_the_fine_bin_edges", And(r.shape[0] == m, SBool(r._elem(k.t) == chord(bins._elem(k.t)))))
    counts, ang_bins, ang_limits = log["final"]
    ctx.check(f"{name}/post:summed_over_the_same_bins_and_limits", ang_bins is bins and ang_limits is limits)
    Fc = lambda j: F(chord(bins._elem(j)))  # noqa: E731
    kk = ctx.fresh_int("kk", lo=0)
    ctx.assume(kk.t < m.t - 1, "post:arbitrary fine bin")
    if not weighted:
        ctx.check(f"{name}/post:per_bin_counts", And(counts.shape[0] == m - 1, SBool(counts._elem(kk.t) == Fc(kk.t + 1) - Fc(kk.t))))
        s = ctx.fresh_int("s", lo=0)
        ctx.assume(s.t < S.t, "post:arbitrary scale")
        # telescoping: the sum over the fine bins inside the scale collapses to the two limits
        sigma.congruence(ctx, lambda u: counts._elem(lo(s.t) + u), lambda u: Fc(lo(s.t) + u + 1) - Fc(lo(s.t) + u), hi(s.t) - lo(s.t), name="per-bin counts inside the scale")
        sigma.telescope(ctx, Fc, lo(s.t), hi(s.t) - lo(s.t))
        ctx.check(f"{name}/post:pairs_with_separation_in_(ang_min, ang_max]",
                  SBool(out._elem(s.t) == F(chord(ang_max._elem(s.t))) - F(chord(ang_min._elem(s.t)))),
                  detail="weighted number of pairs with chord(ang_min) < chord distance <= chord(ang_max)")
    else:
        # omega_k = mid_k^alpha / sum_m mid_m^alpha with mid_k the logarithmic centre (logarithmic_mid is proved separately)
        lm = log.get("mids")
        ctx.check(f"{name}/post:weights_from_the_logarithmic_centres", lm is not None and lm[0] is bins)
        mid = lm[1]
        wk = lambda j: realfn.POW(mid._elem(j), alpha.t)  # noqa: E731
        tot = sigma.total(lambda u: wk(u), m.t - 1)
        ctx.check(f"{name}/post:per_bin_counts_weighted_by_omega_k",
                  And(counts.shape[0] == m - 1, SBool(counts._elem(kk.t) == (Fc(kk.t + 1) - Fc(kk.t)) * (wk(kk.t) / tot))),
                  detail="omega_k = mid_k**alpha / sum_m mid_m**alpha")


class KDStub:
    def __init__(self, tag):
        self.tag = tag

    def count_neighbors(self, other, r, weights=None, cumulative=True):
        return Ctx.cur.ghost["kdtree_count"](self, other, r, weights, cumulative)


class KDResult:
    """what count_neighbors returns: an array supporting astype(float64)"""

    def __init__(self, arr):
        self.arr = arr

    def astype(self, dt):
        return self.arr


# ---------------------------------------------------------------------------------------------------------
# small helpers: get_ang_bins, logarithmic_mid, parse_ang_limits
# ---------------------------------------------------------------------------------------------------------

@unit(P, "get_ang_bins", fuc=["yaw.catalog.trees:get_ang_bins"], cases=[dict(weighted=w) for w in (False, True)],
      trusted=["np.unique", "np.sort of a sorted array", "np.linspace", "10**log10(x) = x over the reals"])
def u_ang_bins(ctx, weighted):
    """the contract AngularTree.count relies on: the fine-bin edges are positive and strictly increasing and every scale limit
    (positive limits; ang_min = 0 is outside the real-number model) is one of them - for any number of scales, with and without
    the extra logarithmic bins for separation weighting"""
    T = mod("yaw.catalog.trees")
    S = ctx.fresh_int("num_scales", lo=1, size=True)
    rng = SArr.fresh(ctx, "ang_range", (S, 2), "f", register=True)
    s = bv("s")
    re_ = rng._elem
    ctx.assume(forall([s], z3.Implies(z3.And(s >= 0, s < S.t), z3.And(re_(s, z3.IntVal(0)) > 0, re_(s, z3.IntVal(0)) < re_(s, z3.IntVal(1)))),
                      patterns=[re_(s, z3.IntVal(0))]), "contract:parse_ang_limits (0 < ang_min < ang_max)")
    res_w = ctx.fresh_int("weight_res", lo=1)
    alpha = ctx.fresh_real("weight_scale") if weighted else None
    name = "C01/get_ang_bins"
    ctx.canary()
    out = expect_no_exception(ctx, call(T.get_ang_bins, rng, alpha, res_w), name)
    m = out.shape[0]
    t, u = ctx.fresh_int("t", lo=0), ctx.fresh_int("u", lo=0)
    ctx.assume(z3.And(t.t < u.t, u.t < to_term(m)), "post:two arbitrary edges")
    ctx.check(f"{name}/post:strictly_increasing_and_positive", SBool(z3.And(out._elem(t.t) < out._elem(u.t), out._elem(t.t) > 0)))
    q, c = ctx.fresh_int("q", lo=0), ctx.fresh_int("c", lo=0, hi=1)
    ctx.assume(q.t < S.t, "post:arbitrary scale limit")
    # witness: the position of the limit in the array handed to np.unique, mapped through unique's `at`
    mu, val, at, src = ctx.ghost["last_unique_general"]
    pos = 2 * q.t + c.t + ((res_w.t + 1) if weighted else 0)
    g = at(pos)
    ctx.check(f"{name}/post:every_limit_is_an_edge", SBool(z3.And(g >= 0, g < to_term(m), out._elem(g) == re_(q.t, c.t))),
              detail="ang_min and ang_max of every scale must be fine-bin edges, otherwise the nearest-edge lookup takes a neighbouring bin")
    ctx.check(f"{name}/post:at_least_two_edges", SBool(to_term(m) >= 2))


# ---------------------------------------------------------------------------------------------------------
# logarithmic_mid, parse_ang_limits
# ---------------------------------------------------------------------------------------------------------

@unit(P, "logarithmic_mid", fuc=["yaw.catalog.trees:logarithmic_mid"])
def u_logmid(ctx):
    """mid_k = 10**((log10 r_k + log10 r_k+1)/2): the logarithmic centre of fine bin k (strictly between its edges)"""
    T = mod("yaw.catalog.trees")
    bins, m = fine_bins(ctx)
    ctx.canary()
    out = expect_no_exception(ctx, call(T.logarithmic_mid, bins), "C01/logarithmic_mid")
    k = ctx.fresh_int("k", lo=0)
    ctx.assume(k.t < m.t - 1, "post:arbitrary fine bin")
    l10, e10 = realfn.F["log10"], realfn.F["exp10"]
    e = bins._elem
    ctx.check("C01/logarithmic_mid/post:one_centre_per_bin", out.shape[0] == m - 1)
    ctx.check("C01/logarithmic_mid/post:logarithmic_centre", SBool(out._elem(k.t) == e10((l10(e(k.t)) + l10(e(k.t + 1))) / 2)))
    ctx.check("C01/logarithmic_mid/post:inside_the_bin", SBool(z3.And(out._elem(k.t) > e(k.t), out._elem(k.t) < e(k.t + 1))))


@unit(P, "parse_ang_limits", fuc=["yaw.catalog.trees:parse_ang_limits"])
def u_parse(ctx):
    """accepts exactly 0 <= ang_min < ang_max <= pi for arrays of equal length; returns the pairs (ang_min_s, ang_max_s) in order"""
    T = mod("yaw.catalog.trees")
    S1, S2 = ctx.fresh_int("len_min", lo=1, size=True), ctx.fresh_int("len_max", lo=1, size=True)
    a, b = SArr.fresh(ctx, "ang_min", (S1,), "f", register=True), SArr.fresh(ctx, "ang_max", (S2,), "f", register=True)
    ctx.canary()
    res = call(T.parse_ang_limits, a, b)
    s = bv("s")
    PI = realfn.PI
    realfn.use("pi")
    valid = And(S1 == S2, SBool(z3.ForAll([s], z3.Implies(z3.And(s >= 0, s < S1.t), z3.And(a._elem(s) >= 0, a._elem(s) < b._elem(s), b._elem(s) <= PI)))))
    if isinstance(res, Raised):
        ctx.cover("rejects")
        ctx.check("C01/parse_ang_limits/post_exc:only_invalid_limits_are_rejected", And(isinstance(res.exc, ValueError), Not(valid)), detail=str(res.exc))
        return
    ctx.cover("accepts")
    ctx.check("C01/parse_ang_limits/post:limits_were_valid", valid)
    q = ctx.fresh_int("q", lo=0)
    ctx.assume(q.t < S1.t, "post:arbitrary scale")
    ctx.check("C01/parse_ang_limits/post:pairs_in_order", And(res.shape[0] == S1, res.shape[1] == 2, SBool(res._elem(q.t, z3.IntVal(0)) == a._elem(q.t)),
                                                               SBool(res._elem(q.t, z3.IntVal(1)) == b._elem(q.t))))


# ---------------------------------------------------------------------------------------------------------
# process_patch_pair
# ---------------------------------------------------------------------------------------------------------

class ConfigFx:
    """a Configuration with symbolic binning (nb bins), S scales and abstract angle functions theta_min/max(s, z)"""

    def __init__(self, ctx, S=None, weighted=False):
        self.ctx = ctx
        binning, nb = CC.make_binning(ctx)
        self.nb, self.S = nb, (S if S is not None else ctx.fresh_int("num_scales", lo=1, size=True))
        R, I = z3.RealSort(), z3.IntSort()
        self.tmin, self.tmax = z3.Function("theta_min", I, R, R), z3.Function("theta_max", I, R, R)
        self.angle_calls = []
        outer = self

        class Scales:
            def get_angle_radian(s_, redshift, cosmology=None):
                zt = to_real(to_term(redshift))
                outer.angle_calls.append((redshift, cosmology))
                ctx.check("C01/pre@get_angle_radian:cosmology_of_the_configuration", cosmology == "COSMO")
                return (SArr((outer.S,), lambda s: outer.tmin(s, zt), "f"), SArr((outer.S,), lambda s: outer.tmax(s, zt), "f"))

        class ScalesCfg:
            scales = Scales()
            num_scales = outer.S
            rweight = ctx.fresh_real("rweight") if weighted else None
            resolution = ctx.fresh_int("resolution", lo=1)

        class BinCfg:
            pass
        self.binning = BinCfg()
        self.binning.binning = binning
        self.binning.edges, self.binning.closed = binning.edges, binning.closed
        self.binning.zmin = SNum(binning.edges._elem(z3.IntVal(0)))
        self.scales = ScalesCfg()
        self.cosmology = "COSMO"
        self.max_workers = None

    def zmid(self, b):
        e = self.binning.binning.edges._elem
        return (e(to_term(b)) + e(to_term(b) + 1)) / 2


PPP_SITE = "yaw.correlation.measurements:process_patch_pair#1"


@unit(P, "process_patch_pair", fuc=["yaw.correlation.measurements:process_patch_pair", "yaw.binning:Binning.mids"],
      cases=[dict(second=s, weighted=w) for s in ("binned", "unbinned") for w in (False, True)], trusted=["BinnedTrees.__iter__ (C07)"])
def u_ppp(ctx, second, weighted):
    """bin b: tree b of patch 1 is counted against tree b of patch 2 (the single tree if patch 2 is unbinned) with the angles of
    all scales at the centre of bin b and the configured weighting; column b of the result and the sums of weights come from
    exactly these trees"""
    M = mod("yaw.correlation.measurements")
    from pyvc.builtins_shim import SRepeat
    cfg = ConfigFx(ctx, weighted=weighted)
    nb, S = cfg.nb, cfg.S
    R, I = z3.RealSort(), z3.IntSort()
    CNT = z3.Function("CNT", I, I, R)      # (bin, scale)
    SW1, SW2 = z3.Function("SW1", I, R), z3.Function("SW2", I, R)
    NR1, NR2 = z3.Function("NR1", I, I), z3.Function("NR2", I, I)
    name = "C01/process_patch_pair"
    t_, s_ = bv("t"), bv("s")
    ctx.assume(forall([t_, s_], z3.And(NR1(t_) >= 0, NR2(t_) >= 0, z3.Implies(NR1(t_) == 0, z3.And(SW1(t_) == 0, CNT(t_, s_) == 0)),
                                       z3.Implies(NR2(t_) == 0, SW2(t_) == 0),
                                       z3.Implies(NR2(t_ if second == "binned" else z3.IntVal(-1)) == 0, CNT(t_, s_) == 0)), patterns=[CNT(t_, s_)]),
               "type:AngularTree invariant (a tree without records has no weight and no pairs)")
    ctx.assume(forall([t_], z3.And(NR1(t_) >= 0, NR2(t_) >= 0, z3.Implies(NR1(t_) == 0, SW1(t_) == 0), z3.Implies(NR2(t_) == 0, SW2(t_) == 0)),
                      patterns=[NR1(t_)]), "type:AngularTree invariant (a tree without records has no weight)")
    ctx.assume(forall([t_], z3.And(NR2(t_) >= 0, z3.Implies(NR2(t_) == 0, SW2(t_) == 0)), patterns=[NR2(t_)]), "type:AngularTree invariant (a tree without records has no weight)")

    class Tree:
        def __init__(self, side, b):
            self.side, self.b = side, b

        @property
        def num_records(self):
            if self.side == 1:
                return SNum(NR1(to_term(self.b)))
            return SNum(NR2(to_term(self.b))) if self.b is not None else SNum(NR2(z3.IntVal(-1)))

        @property
        def sum_weights(self):
            if self.side == 1:
                return SNum(SW1(to_term(self.b)))
            return SNum(SW2(to_term(self.b))) if self.b is not None else SNum(SW2(z3.IntVal(-1)))

        def count(self, other, ang_min, ang_max, *, weight_scale=None, weight_res=50):
            b = to_term(self.b)
            ctx.check(f"{name}/pre@count:tree_b_of_patch_1_against_tree_b_of_patch_2",
                      And(self.side == 1, isinstance(other, Tree) and other.side == 2, True if other.b is None else SBool(to_term(other.b) == b)))
            q = ctx.fresh_int("q", lo=0)
            ctx.assume(q.t < S.t, "pre:arbitrary scale")
            zm = cfg.zmid(b)
            ctx.check(f"{name}/pre@count:angles_of_all_scales_at_the_centre_of_bin_b",
                      And(ang_min.shape[0] == S, ang_max.shape[0] == S, SBool(ang_min._elem(q.t) == cfg.tmin(q.t, zm)), SBool(ang_max._elem(q.t) == cfg.tmax(q.t, zm))),
                      detail="the scale limits must be converted at the centre of the bin whose trees are counted")
            ctx.check(f"{name}/pre@count:configured_weighting", weight_scale is cfg.scales.rweight and weight_res is cfg.scales.resolution)
            return SArr((S,), lambda s: CNT(b, s), "f")

    class BT:
        def __init__(self, patch):
            self.patch = patch

        def __iter__(self):
            raise Unsupported("native iteration")

        def vc_iter(self):
            if self.patch == "P1":
                return SSeq(nb, lambda t: Tree(1, t))
            if second == "binned":
                return SSeq(nb, lambda t: Tree(2, t))
            return SRepeat(Tree(2, None))

    def inv(L):
        t, s = bv("t"), bv("s")
        bc, s1, s2 = L.binned_counts._elem, L.sum_weights1._elem, L.sum_weights2._elem
        sw2 = (lambda x: SW2(x)) if second == "binned" else (lambda x: SW2(z3.IntVal(-1)))
        ob, o1, o2 = L.old.binned_counts._elem, L.old.sum_weights1._elem, L.old.sum_weights2._elem
        return dict(filled=SBool(z3.ForAll([t, s], z3.Implies(z3.And(t >= 0, t < to_term(L.j), s >= 0, s < S.t),
                                                               z3.And(bc(s, t) == CNT(t, s), s1(t) == SW1(t), s2(t) == sw2(t))))),
                    # frame: the columns of the bins not visited yet still hold what they held before the loop (zeros, if the
                    # arrays were created with zeros)
                    untouched=SBool(z3.ForAll([t, s], z3.Implies(z3.And(t >= to_term(L.j), t < nb.t, s >= 0, s < S.t),
                                                                  z3.And(bc(s, t) == ob(s, t), s1(t) == o1(t), s2(t) == o2(t))))))
    pair = M.PatchPair(ctx.fresh_int("id1", lo=0), ctx.fresh_int("id2", lo=0), "P1", "P2")
    with Patches() as pt, use_loops({PPP_SITE: LoopSpec(inv=inv)}):
        pt.set(M, "BinnedTrees", BT)
        ctx.canary()
        res = expect_no_exception(ctx, call(M.process_patch_pair, pair, cfg), name)
    ctx.check(f"{name}/post:ids_of_the_pair", res.id1 is pair.id1 and res.id2 is pair.id2)
    b, s = ctx.fresh_int("b", lo=0), ctx.fresh_int("s", lo=0)
    ctx.assume(z3.And(b.t < nb.t, s.t < S.t), "post:arbitrary bin and scale")
    sw2 = SW2(b.t) if second == "binned" else SW2(z3.IntVal(-1))
    ctx.check(f"{name}/post:shapes", And(res.counts.shape[0] == S, res.counts.shape[1] == nb, res.sum_weights1.shape[0] == nb, res.sum_weights2.shape[0] == nb))
    ctx.check(f"{name}/post:counts[s, b]_are_the_counts_of_the_trees_of_bin_b", SBool(res.counts._elem(s.t, b.t) == CNT(b.t, s.t)))
    ctx.check(f"{name}/post:sum_weights_of_the_trees_of_bin_b", SBool(z3.And(res.sum_weights1._elem(b.t) == SW1(b.t), res.sum_weights2._elem(b.t) == sw2)))


# ---------------------------------------------------------------------------------------------------------
# get_max_angle and the pruning lemma
# ---------------------------------------------------------------------------------------------------------

@unit(P, "get_max_angle", fuc=["yaw.correlation.measurements:get_max_angle"])
def u_max_angle(ctx):
    """the link angle is at least the upper angle of every scale at the centre of every bin - the angles process_patch_pair
    uses - and is one of them; no monotonicity of the angle in redshift is assumed"""
    M = mod("yaw.correlation.measurements")
    cfg = ConfigFx(ctx)
    ctx.canary()
    res = expect_no_exception(ctx, call(M.get_max_angle, cfg), "C01/get_max_angle")
    b, s = ctx.fresh_int("b", lo=0), ctx.fresh_int("s", lo=0)
    ctx.assume(z3.And(b.t < cfg.nb.t, s.t < cfg.S.t), "post:arbitrary bin and scale")
    ctx.check("C01/get_max_angle/post:single_value", vc_len(res) == 1)
    ctx.check("C01/get_max_angle/post:dominates_every_angle_used_for_counting", SBool(res.data._elem(z3.IntVal(0)) >= cfg.tmax(s.t, cfg.zmid(b.t))),
              detail="pairs of bin b are counted up to theta_max(s, centre of bin b); the linkage must use at least that angle")


@unit(P, "pruning_lemma", kind="lemma")
def u_pruning(ctx):
    """metric lemma: if patch i of catalog A holds p and patch j of catalog B holds q with d(p, q) <= theta, every patch lies
    inside its stored radius around its stored centre (C12), and R_i >= d(c_i, a_i) + rad(A_i), R_j >= d(c_j, b_j) + rad(B_j)
    for the reference centres c, then d(c_i, c_j) <= R_i + R_j + theta.  (six-point triangle chain)"""
    D = z3.DeclareSort("Point")
    d = z3.Function("angdist", D, D, z3.RealSort())
    x, y, z = z3.Consts("x y z", D)
    ctx.assume(z3.ForAll([x, y], z3.And(d(x, y) >= 0, d(x, y) == d(y, x))), "metric:symmetry")
    ctx.assume(z3.ForAll([x, y, z], d(x, z) <= d(x, y) + d(y, z)), "metric:triangle inequality")
    ci, cj, ai, bj, p, q = z3.Consts("c_i c_j a_i b_j p q", D)
    radA, radB, Ri, Rj, theta = z3.Reals("radA radB R_i R_j theta")
    ctx.assume(z3.And(d(ai, p) <= radA, d(bj, q) <= radB), "premise:metadata invariant (every record within the stored radius, C12)")
    ctx.assume(z3.And(Ri >= d(ci, ai) + radA, Rj >= d(cj, bj) + radB), "premise:from_catalogs.post extents")
    ctx.assume(d(p, q) <= theta, "premise:a pair within the angle")
    ctx.canary()
    ctx.check("C01/pruning_lemma/linked_distance", d(ci, cj) <= Ri + Rj + theta, kind="lemma")


LINK_SITE_RADII = "yaw.correlation.measurements:PatchLinkage.from_catalogs#1"
LINK_SITE_LINKS = "yaw.correlation.measurements:PatchLinkage.from_catalogs#2"


class KeysFx:
    """keys of a catalog with patches 0..N-1 (in order)"""

    def __init__(self, N):
        self.N = N

    def __eq__(self, o):
        from pyvc.containers import SymSet
        if isinstance(o, KeysFx):
            return o.N is self.N
        if isinstance(o, SymSet) and o.origin and o.origin[0] == "iterable" and isinstance(o.origin[1], KeysFx):
            return o.origin[1].N is self.N
        return NotImplemented

    def __ne__(self, o):
        r = self.__eq__(o)
        return r if r is NotImplemented else not r

    __hash__ = None

    def vc_len(self):
        return self.N

    def item(self, t):
        return SNum(to_term(t))


class CatFx:
    """catalog of N patches (ids 0..N-1 in order): centres and radii as functions of the patch index"""

    def __init__(self, ctx, tag, N, nrec):
        self.ctx, self.tag, self.N, self.nrec = ctx, tag, N, nrec
        I, R = z3.IntSort(), z3.RealSort()
        self.rad = z3.Function(f"rad_{tag}", I, R)
        t = bv("t")
        ctx.assume(forall([t], z3.Implies(z3.And(t >= 0, t < N.t), self.rad(t) >= 0), patterns=[self.rad(t)]), "type:radii are not negative")

    def keys(self):
        return KeysFx(self.N)

    def get_num_records(self):
        return self.nrec

    def get_centers(self):
        return CentersFx(self)

    def get_radii(self):
        return dists(SArr((self.N,), lambda t: self.rad(t), "f"))


def dists(arr):
    CO = mod("yaw.coordinates")
    r = CO.AngularDistances.__new__(CO.AngularDistances)
    r.data = arr
    return r


class CentersFx:
    """AngularCoordinates of a catalog: distance() is the abstract metric between centres"""

    def __init__(self, cat, single=None):
        self.cat, self.single = cat, single

    def vc_len(self):
        return self.cat.N if self.single is None else 1

    def item(self, t):
        return CentersFx(self.cat, single=SNum(to_term(t)))

    def distance(self, other):
        dist = Ctx.cur.ghost["centre_dist"]
        a, b = self, other
        if a.single is None and b.single is None:
            return dists(SArr((a.cat.N,), lambda t: dist(a.cat.tag, t, b.cat.tag, t), "f"))
        if b.single is not None and a.single is None:
            return dists(SArr((a.cat.N,), lambda t: dist(a.cat.tag, t, b.cat.tag, to_term(b.single)), "f"))
        raise Unsupported("distance of a single centre to many")


class LinksMap:
    """abstract view of the dict patch id -> set of linked ids: has(i), mem(i, j)"""

    def __init__(self, ctx):
        I, B = z3.IntSort(), z3.BoolSort()
        h, m = ctx.fresh_fn("has_links", I, B), ctx.fresh_fn("linked", I, I, B)
        self.has, self.mem = (lambda i: h(i)), (lambda i, j: m(i, j))

    def __setitem__(self, key, value):
        from pyvc.containers import SymSet
        if not isinstance(value, SymSet):
            raise Unsupported("links must be sets")
        kt = to_term(key)
        oh, om, vm = self.has, self.mem, value.mem
        self.has = lambda i: z3.Or(i == kt, oh(i))
        self.mem = lambda i, j: z3.If(i == kt, vm(j), om(i, j))


@unit(P, "PatchLinkage.from_catalogs", fuc=["yaw.correlation.measurements:PatchLinkage.from_catalogs", "yaw.coordinates:AngularDistances.__add__"],
      cases=[dict(ncat=n) for n in (2, 3)], trusted=["metric axioms", "itertools.compress"])
def u_links(ctx, ncat):
    """patch j is linked to patch i exactly when  d(c_i, c_j) <= R_i + R_j + theta_link  with R_k >= d(c_k, centre of patch k in
    catalog X) + radius of patch k in catalog X for *every* catalog X taking part (c = centres of a catalog with the most
    records); hence links are reflexive and symmetric.  Together with the pruning lemma: a pair within theta_link is never lost"""
    M = mod("yaw.correlation.measurements")
    N = ctx.fresh_int("num_patches", lo=1, size=True)
    nrecs = [ctx.fresh_int(f"num_records_{k}", lo=1) for k in range(ncat)]
    cats = [CatFx(ctx, f"cat{k}", N, nrecs[k]) for k in range(ncat)]
    I, R = z3.IntSort(), z3.RealSort()
    dfun = {}

    def dist(tag_a, i, tag_b, j):
        key = tuple(sorted((tag_a, tag_b)))
        f = dfun.setdefault(key, z3.Function(f"d_{key[0]}_{key[1]}", I, I, R))
        if tag_a == tag_b:
            i, j = (i, j)
            return z3.If(i <= j, f(i, j), f(j, i))      # symmetric by construction
        return f(i, j) if (tag_a, tag_b) == key else f(j, i)
    ctx.ghost["centre_dist"] = dist
    t, u = bv("t"), bv("u")
    theta = ctx.fresh_real("theta_link")
    ctx.assume(theta.t >= 0, "contract:get_max_angle is an angle")
    th = dists(SArr((1,), lambda q: theta.t, "f"))
    log = {}
    name = "C01/PatchLinkage.from_catalogs"

    def covers(radii_elem, upto):
        cs = [SBool(z3.ForAll([t], z3.Implies(z3.And(t >= 0, t < N.t), radii_elem(t) >= log["ref"].rad(t))))]
        for k, cat in enumerate(log["others"]):
            c = SBool(z3.ForAll([t], z3.Implies(z3.And(t >= 0, t < N.t), radii_elem(t) >= dist(log["ref"].tag, t, cat.tag, t) + cat.rad(t))))
            cs.append(c if upto is None else Implies(upto > k, c))
        return And(*cs)

    def inv_radii(L):
        return And(covers(L.radii.data._elem, L.j), L.radii.data.shape[0] == N)

    def cond(i, j):
        Re = log["R"]._elem
        return dist(log["ref"].tag, i, log["ref"].tag, j) <= Re(i) + Re(j) + theta.t

    def inv_links(L):
        log["R"] = L.radii.data
        pl = L.patch_links
        if not isinstance(pl, LinksMap):
            return L.j == 0
        i, j = bv("i"), bv("j")
        return SBool(z3.ForAll([i, j], z3.Implies(z3.And(i >= 0, i < to_term(L.j), j >= 0, j < N.t), z3.And(pl.has(i), pl.mem(i, j) == cond(i, j)))))

    def check_consistency(ref, *others):
        log["ref"], log["others"] = ref, list(others)

    class Links:
        def __init__(self, config, patch_links):
            self.config, self.patch_links = config, patch_links

    def fresh_radii(L):
        return dists(SArr.fresh(ctx, "radii", (N,), "f"))
    from pyvc.unit import find_site
    specs = {find_site("yaw.correlation.measurements:PatchLinkage.from_catalogs", "zip(patch_ids"): LoopSpec(inv=inv_links, fresh={"patch_links": lambda L: LinksMap(ctx)})}
    with Patches() as pt, use_loops(specs):
        pt.set(M, "get_max_angle", lambda config: th)
        pt.set(M, "check_patch_conistency", check_consistency)
        ctx.canary()
        res = expect_no_exception(ctx, call(M.PatchLinkage.from_catalogs.__func__, Links, "CFG", *cats), name)
    ref = log["ref"]
    ctx.check(f"{name}/post:reference_is_a_catalog_with_the_most_records", And(*[ref.nrec >= c.nrec for c in cats]))
    ctx.check(f"{name}/post:all_other_catalogs_checked_against_the_reference", sorted(c.tag for c in [ref] + log["others"]) == sorted(c.tag for c in cats))
    links = res.patch_links
    ctx.check(f"{name}/post:links_built", isinstance(links, LinksMap) and "R" in log)
    i, j = ctx.fresh_int("i", lo=0), ctx.fresh_int("j", lo=0)
    ctx.assume(z3.And(i.t < N.t, j.t < N.t), "post:arbitrary patches")
    Re = log["R"]._elem
    for cat in cats:
        off_i = dist(ref.tag, i.t, cat.tag, i.t) if cat is not ref else z3.RealVal(0)
        ctx.check(f"{name}/post:extent_of_patch_i_covers_its_patch_in_catalog[{cats.index(cat)}]", SBool(Re(i.t) >= off_i + cat.rad(i.t)),
                  detail="R_i >= d(c_i, centre of patch i in the catalog) + radius of patch i in the catalog")
    ctx.check(f"{name}/post:every_patch_has_links", SBool(links.has(i.t)))
    ctx.check(f"{name}/post:linked_whenever_the_extents_allow_a_pair_within_the_angle", SBool(z3.Implies(cond(i.t, j.t), links.mem(i.t, j.t))),
              detail="patch j must be linked to patch i if d(c_i, c_j) <= R_i + R_j + theta_link")
    ctx.assume(dist(ref.tag, i.t, ref.tag, i.t) == 0, "metric:d(x, x) = 0")
    ctx.check(f"{name}/post:reflexive", SBool(links.mem(i.t, i.t)))
    ctx.check(f"{name}/post:symmetric", SBool(links.mem(i.t, j.t) == links.mem(j.t, i.t)))


# ---------------------------------------------------------------------------------------------------------
# count_pairs: every task result lands in its own cell, for every arrival order
# ---------------------------------------------------------------------------------------------------------

@unit(P, "PatchLinkage.count_pairs", fuc=["yaw.correlation.measurements:PatchLinkage.count_pairs", "yaw.correlation.paircounts:PatchedCounts.zeros",
                                         "yaw.correlation.paircounts:PatchedCounts.set_patch_pair"],
      cases=[dict(auto=a, S=s) for a in (False, True) for s in (1, 2)], trusted=["iter_unordered contract", "iter_patch_id_pairs contract"], kind="bounded")
def u_count_pairs(ctx, auto, S):
    """cell (b, i, j) of scale s holds the counts of the one task for the patch pair (i, j) - halved on the diagonal of an
    autocorrelation - and 0 if there is no such task; the sums of weights of patch i come from the tasks of patch i; for any
    number of tasks, patches, bins and any arrival order.  BOUNDED in the number of scales (1, 2)."""
    M = mod("yaw.correlation.measurements")
    from .C03 import Permuted
    from pyvc.unit import find_site
    cfg = ConfigFx(ctx, S=S)
    nb = cfg.nb
    N = ctx.fresh_int("num_patches", lo=1, size=True)
    K = ctx.fresh_int("num_tasks", lo=0, size=True)
    I, R = z3.IntSort(), z3.RealSort()
    I1, I2, tid = ctx.fresh_fn("task_id1", I, I), ctx.fresh_fn("task_id2", I, I), ctx.fresh_fn("task_of", I, I, I)
    CNT = z3.Function("CNT", I, I, I, R)
    SW1, SW2 = z3.Function("SW1", I, I, R), z3.Function("SW2", I, I, R)
    t, i_, j_, b_ = bv("t"), bv("i"), bv("j"), bv("b")
    ctx.assume(forall([t], z3.Implies(z3.And(t >= 0, t < K.t), z3.And(I1(t) >= 0, I1(t) < N.t, I2(t) >= 0, I2(t) < N.t, tid(I1(t), I2(t)) == t)), patterns=[I1(t)]),
               "contract:iter_patch_id_pairs (every pair at most once)")
    emitted = lambda i, j: z3.And(tid(i, j) >= 0, tid(i, j) < K.t, I1(tid(i, j)) == i, I2(tid(i, j)) == j)  # noqa: E731
    ctx.assume(forall([i_], z3.Implies(z3.And(i_ >= 0, i_ < N.t), emitted(i_, i_)), patterns=[tid(i_, i_)]), "contract:iter_patch_id_pairs (every (i, i) is a task)")
    state = {}
    name = "C01/PatchLinkage.count_pairs"

    def process(pair, config):
        ctx.check(f"{name}/pre@process_patch_pair:configuration_of_the_linkage", config is cfg)
        tt = to_term(pair[1])
        return M.PatchPaircounts(SNum(I1(tt)), SNum(I2(tt)), SArr((nb,), lambda b: SW1(I1(tt), b), "f"), SArr((nb,), lambda b: SW2(I2(tt), b), "f"),
                                 SArr((S, nb), lambda s, b: CNT(tt, s, b), "f"))

    def iter_unordered_stub(func, iterable, *, func_args=None, func_kwargs=None, unpack=False, max_workers=None, **kw):
        ctx.check(f"{name}/pre@iter_unordered:process_patch_pair_over_the_patch_pairs", func is process and iterable is state["pairs"])
        state["perm"] = Permuted(ctx, func, iterable, func_args, func_kwargs, unpack)
        return state["perm"]

    class Par:
        COMM = mod("yaw.utils.parallel").COMM
        on_root = staticmethod(lambda: True)
        on_worker = staticmethod(lambda: False)
        iter_unordered = staticmethod(iter_unordered_stub)

    class Cat:
        def __init__(self, tag):
            self.tag = tag

        def vc_len(self):
            return N

    def get_patch_pairs(self, *cats):
        state["cats"] = cats
        state["pairs"] = SSeq(K, lambda q: ("PAIR", q))
        return state["pairs"]

    class SumW:
        def __init__(self, binning, sw1, sw2, *, auto):
            self.binning, self.sum_weights1, self.sum_weights2, self.auto = binning, sw1, sw2, auto

    class Norm:
        def __init__(self, counts, sum_weights):
            self.counts, self.sum_weights = counts, sum_weights
    site = find_site("yaw.correlation.measurements:PatchLinkage.count_pairs", "count_iter")
    PC = mod("yaw.correlation.paircounts")

    def arrived(L, i, j):
        return z3.And(emitted(i, j), state["perm"].pinv(tid(i, j)) < to_term(L.j))

    def value(s, b, i, j):
        v = CNT(tid(i, j), z3.IntVal(s), b)
        return z3.If(i == j, v * z3.RealVal("1/2"), v) if auto else v

    def inv(L):
        perm = state["perm"]
        cs = []
        rng = z3.And(b_ >= 0, b_ < nb.t, i_ >= 0, i_ < N.t, j_ >= 0, j_ < N.t)
        for s in range(S):
            ce = L.scale_counts[s].counts._elem
            cs.append(SBool(z3.ForAll([b_, i_, j_], z3.Implies(rng, ce(b_, i_, j_) == z3.If(arrived(L, i_, j_), value(s, b_, i_, j_), z3.RealVal(0))))))
        u = bv("u")
        s1, s2 = L.sum_weights1._elem, L.sum_weights2._elem
        cs.append(SBool(z3.ForAll([u, b_], z3.Implies(z3.And(u >= 0, u < to_term(L.j), b_ >= 0, b_ < nb.t),
                                                       z3.And(s1(b_, I1(perm.pi(u))) == SW1(I1(perm.pi(u)), b_), s2(b_, I2(perm.pi(u))) == SW2(I2(perm.pi(u)), b_))))))
        return And(*cs)

    def fresh_counts(L):
        out = []
        for s in range(S):
            c = PC.PatchedCounts.__new__(PC.PatchedCounts)
            c.binning, c.auto = cfg.binning.binning, auto
            c.counts = SArr.fresh(ctx, f"counts_scale{s}", (nb, N, N), "f")
            out.append(c)
        return out
    links = M.PatchLinkage.__new__(M.PatchLinkage)
    links.config = cfg
    cats = (Cat("main"),) if auto else (Cat("main"), Cat("other"))
    with Patches() as pt, use_loops({site: LoopSpec(inv=inv, fresh={"scale_counts": fresh_counts})}):
        pt.set(M, "parallel", Par)
        pt.set(M, "process_patch_pair", process)
        pt.set(M.PatchLinkage, "get_patch_pairs", get_patch_pairs)
        pt.set(M, "PatchedSumWeights", SumW)
        pt.set(M, "NormalisedCounts", Norm)
        ctx.canary()
        res = expect_no_exception(ctx, call(links.count_pairs, *cats, max_workers=ctx.fresh_int("max_workers", lo=1)), name)
    perm = state["perm"]
    ctx.check(f"{name}/post:pairs_of_exactly_the_given_catalogs", state["cats"] == cats)
    ctx.check(f"{name}/post:one_container_per_scale", len(res) == S and all(isinstance(r, Norm) for r in res))
    b, i, j = ctx.fresh_int("b", lo=0), ctx.fresh_int("i", lo=0), ctx.fresh_int("j", lo=0)
    ctx.assume(z3.And(b.t < nb.t, i.t < N.t, j.t < N.t), "post:arbitrary cell")
    ctx.assume(z3.Implies(emitted(i.t, j.t), z3.And(perm.pinv(tid(i.t, j.t)) >= 0, perm.pinv(tid(i.t, j.t)) < K.t)), "contract:iter_unordered instance")
    for k_ in (i, j):
        ctx.assume(z3.And(perm.pinv(tid(k_.t, k_.t)) >= 0, perm.pinv(tid(k_.t, k_.t)) < K.t, perm.pi(perm.pinv(tid(k_.t, k_.t))) == tid(k_.t, k_.t)),
                   "contract:iter_unordered instance")
    for s in range(S):
        ctx.check(f"{name}/post:cell_of_scale_{s}_holds_the_counts_of_its_own_task", And(
            res[s].counts.auto == auto, res[s].counts.counts.shape[1] == N,
            SBool(res[s].counts.counts._elem(b.t, i.t, j.t) == z3.If(emitted(i.t, j.t), value(s, b.t, i.t, j.t), z3.RealVal(0)))),
            detail="diagonal cells of an autocorrelation are halved (a tree counted with itself sees every pair twice); cells without task stay 0")
    sw = res[0].sum_weights
    ctx.check(f"{name}/post:sums_of_weights_per_bin_and_patch", And(sw.auto == auto, all(r.sum_weights is sw for r in res),
                                                                   SBool(sw.sum_weights1._elem(b.t, i.t) == SW1(i.t, b.t)), SBool(sw.sum_weights2._elem(b.t, j.t) == SW2(j.t, b.t))))


@unit(P, "PatchLinkage.get_patch_pairs", fuc=["yaw.correlation.measurements:PatchLinkage.get_patch_pairs", "yaw.correlation.measurements:PatchLinkage.count_pairs_optional"],
      cases=[dict(auto=a) for a in (False, True)])
def u_get_pairs(ctx, auto):
    """task (i, j) pairs patch i of the first catalog with patch j of the second catalog (of the same catalog for an
    autocorrelation); the ids come from iter_patch_id_pairs(auto=...); count_pairs_optional skips the count iff a catalog is missing"""
    M = mod("yaw.correlation.measurements")
    ids = [(0, 0), (1, 1), (0, 1), (1, 0)]
    seen = {}

    class Cat:
        def __init__(self, tag):
            self.tag = tag

        def __getitem__(self, pid):
            return (self.tag, pid)
    links = M.PatchLinkage.__new__(M.PatchLinkage)

    class Cfg:
        class scales:
            num_scales = 3
    links.config = Cfg
    with Patches() as pt:
        pt.set(M.PatchLinkage, "iter_patch_id_pairs", lambda self, *, auto: seen.setdefault("auto", auto) and iter(ids) if auto else (seen.setdefault("auto", auto), iter(ids))[1])
        ctx.canary()
        a, b = Cat("A"), Cat("B")
        res = expect_no_exception(ctx, call(links.get_patch_pairs, a) if auto else call(links.get_patch_pairs, a, b), "C01/get_patch_pairs")
        ctx.check("C01/get_patch_pairs/post:ids_from_iter_patch_id_pairs_with_the_right_mode", seen.get("auto") is auto)
        second = "A" if auto else "B"
        ctx.check("C01/get_patch_pairs/post:patch_i_of_catalog_1_with_patch_j_of_catalog_2",
                  [(p.id1, p.id2, p.patch1, p.patch2) for p in res] == [(i, j, ("A", i), (second, j)) for i, j in ids])
        pt.set(M.PatchLinkage, "count_pairs", lambda self, *cats, **kw: ("COUNTED", cats, kw))
        r1 = call(links.count_pairs_optional, a, None, progress=False, max_workers=2)
        r2 = call(links.count_pairs_optional, a, b, progress=False, max_workers=2)
        r3 = call(links.count_pairs_optional, None, max_workers=2)
        ctx.check("C01/count_pairs_optional/post:none_per_scale_iff_a_catalog_is_missing", r1 == [None, None, None] and r3 == [None, None, None]
                  and r2 == ("COUNTED", (a, b), dict(progress=False, max_workers=2)))


# ---------------------------------------------------------------------------------------------------------
# iter_patch_id_pairs: every linked pair exactly once, for any number of patches and any link structure
# ---------------------------------------------------------------------------------------------------------

class _Rows:
    """ghost: the sets of the dict, rem(i, j) <=> j in patch_links[i]"""

    def __init__(self, rem):
        self.rem = rem

    def vc_havoc(self, ctx, name):
        f = ctx.fresh_fn("rem", z3.IntSort(), z3.IntSort(), z3.BoolSort())
        self.rem = lambda a, b: f(a, b)

    def vc_snapshot(self):
        return _Rows(self.rem)


class _Yielded:
    """ghost: how often the pair (a, b) was yielded"""

    def __init__(self):
        self.yc = lambda a, b: z3.IntVal(0)

    def vc_havoc(self, ctx, name):
        f = ctx.fresh_fn("yielded", z3.IntSort(), z3.IntSort(), z3.IntSort())
        self.yc = lambda a, b: f(a, b)

    def vc_snapshot(self):
        y = _Yielded()
        y.yc = self.yc
        return y

    def on_emit(self, value):
        i, j = value
        it, jt, old = to_term(i), to_term(j), self.yc
        self.yc = lambda a, b: old(a, b) + z3.If(z3.And(a == it, b == jt), 1, 0)


class _Enum:
    """finite set of integers as an injective enumeration key(0..n-1) with its inverse idx: x is a member iff
    0 <= idx(x) < n and key(idx(x)) == x.  ASSUMED python semantics: removing / adding a member gives such an enumeration of the
    new member set (any order)"""

    def __init__(self, ctx, hint, n=None):
        self.ctx, self.hint = ctx, hint
        self._fresh(n)

    def _fresh(self, n=None):
        ctx = self.ctx
        I = z3.IntSort()
        self.n = ctx.fresh_int(f"len_{self.hint}", lo=0, size=True) if n is None else n
        k, x = ctx.fresh_fn(f"key_{self.hint}", I, I), ctx.fresh_fn(f"idx_{self.hint}", I, I)
        self.key, self.idx = (lambda q: k(q)), (lambda a: x(a))

    def state(self):
        return (self.n, self.key, self.idx)

    def mem(self, a, st=None):
        n, key, idx = st or self.state()
        return z3.And(idx(a) >= 0, idx(a) < to_term(n), key(idx(a)) == a)

    def wf(self, st=None):
        n, key, idx = st or self.state()
        q = bv("q")
        return z3.And(to_term(n) >= 0, forall([q], z3.Implies(z3.And(q >= 0, q < to_term(n)), idx(key(q)) == q), patterns=[key(q)]))

    def vc_havoc(self, ctx, name):
        self._fresh()

    def vc_len(self):
        return self.n

    def item(self, j):
        return SNum(self.key(to_term(j)))

    def _replace(self, member_after, delta):
        old = self.state()
        self._fresh(n=SNum(to_term(old[0]) + delta))
        a = bv("a")
        self.ctx.assume(self.wf(), "python:set/dict keys stay an enumeration without repetition")
        self.ctx.assume(forall([a], self.mem(a) == member_after(a, old), patterns=[self.idx(a), old[2](a)]), "python:membership after adding / removing one key")


class _LinkDict(_Enum):
    """ghost dict patch id -> set of ids: the keys are an enumeration (iteration order = enumeration order), the sets are rows"""

    def __init__(self, ctx, hint, rows, n=None):
        super().__init__(ctx, hint, n)
        self.rows = rows

    def vc_snapshot(self):
        c = _LinkDict.__new__(_LinkDict)
        c.ctx, c.hint, c.rows = self.ctx, self.hint, self.rows
        c.n, c.key, c.idx = self.state()
        return c

    def vc_fresh_like(self, ctx, name):
        c = self.vc_snapshot()      # same rows object (havoced through the loop ghosts), new keys
        c._fresh()
        return c

    def vc_deepcopy(self):
        c = self.vc_snapshot()
        c.rows = _Rows(self.rows.rem)
        self.ctx.ghost["copies"].append(c)
        return c

    def items(self):
        n, key, _ = self.state()
        rows = self.rows
        return SSeq(n, lambda q: (SNum(key(to_term(q))), _Row(self.ctx, rows, key(to_term(q)))))

    def pop(self, k):
        kt = to_term(k)
        if not self.ctx.branch(self.mem(kt)):
            raise KeyError(k)
        self._replace(lambda a, old: z3.And(self.mem(a, old), a != kt), -1)


class _Row:
    def __init__(self, ctx, rows, i):
        self.ctx, self.rows, self.i = ctx, rows, i

    def _discard(self, kt):
        old, i = self.rows.rem, self.i
        self.rows.rem = lambda a, b: z3.And(old(a, b), z3.Not(z3.And(a == i, b == kt)))

    def remove(self, k):
        kt = to_term(k)
        if not self.ctx.branch(self.rows.rem(self.i, kt)):
            raise KeyError(k)
        self._discard(kt)

    def pop(self):
        e = bv("e")
        if not self.ctx.branch(z3.Exists([e], self.rows.rem(self.i, e))):
            raise KeyError("pop from an empty set")
        k = self.ctx.fresh_int("popped")
        self.ctx.assume(self.rows.rem(self.i, k.t), "python:set.pop returns a member")
        self._discard(k.t)
        return k


class _IdSet(_Enum):
    """ghost for `exhausted = set()`"""

    def add(self, k):
        kt = to_term(k)
        if self.ctx.branch(self.mem(kt)):
            return
        self._replace(lambda a, old: z3.Or(self.mem(a, old), a == kt), 1)


@unit(P, "PatchLinkage.iter_patch_id_pairs", fuc=["yaw.correlation.measurements:PatchLinkage.iter_patch_id_pairs"],
      cases=[dict(auto=a) for a in (False, True)], trusted=["python dict/set: pop/remove/add change membership by exactly one key; iteration visits every key once"])
def u_iter_pairs(ctx, auto):
    """for ANY number of patches and ANY reflexive link structure: the pair (i, i) of every patch is yielded exactly once, every
    linked pair (i, j), i != j, exactly once (autocorrelation: only i < j, once), nothing else; the linkage itself is left
    unchanged (it can be iterated again).  Termination is not proved."""
    from pyvc.unit import find_site
    M = mod("yaw.correlation.measurements")
    Q = "yaw.correlation.measurements:PatchLinkage.iter_patch_id_pairs"
    fn = shadow.reload_function(Q)
    name = "C01/iter_patch_id_pairs"
    I, Bo = z3.IntSort(), z3.BoolSort()
    link0_f = ctx.fresh_fn("linked", I, I, Bo)
    link0 = lambda a, b: link0_f(a, b)  # noqa: E731
    orig = _LinkDict(ctx, "patches", _Rows(link0))
    st0 = orig.state()
    ctx.ghost["copies"] = []
    a_, b_ = bv("a"), bv("b")
    has0 = lambda a: orig.mem(a, st0)  # noqa: E731
    ctx.assume(orig.wf(), "type:dict keys are an enumeration without repetition")
    ctx.assume(forall([a_], z3.Implies(has0(a_), link0(a_, a_)), patterns=[link0(a_, a_)]), "pre:links are reflexive (PatchLinkage.from_catalogs/post:reflexive)")
    cond = (lambda a, b: b > a) if auto else (lambda a, b: z3.BoolVal(True))
    spec = lambda a, b: z3.If(z3.And(has0(a), a == b), 1, 0) + z3.If(z3.And(has0(a), link0(a, b), a != b, cond(a, b)), 1, 0)  # noqa: E731
    Y = _Yielded()
    ctx.ghost["emit_hook"] = Y.on_emit
    links = M.PatchLinkage.__new__(M.PatchLinkage)
    links.patch_links = orig
    sites = [s for s in shadow.SITES if shadow.SITES[s]["module"] == "yaw.correlation.measurements" and shadow.SITES[s]["qualname"] == "PatchLinkage.iter_patch_id_pairs"]
    heads = {s: shadow.SITES[s].get("head", "") for s in sites}
    by = lambda text: sorted(s for s in sites if text in heads[s])  # noqa: E731
    item_loops, while_loops, ex_loops = by("patch_links.items()"), by("len(patch_links)"), sorted(s for s in sites if heads[s].strip() == "exhausted")
    if not (len(item_loops) == 2 and len(while_loops) == 1 and len(ex_loops) == 1 and len(sites) == 4):
        raise Unsupported(f"{Q}: the loops the contract belongs to were changed ({heads})")
    s_first, s_inner = item_loops
    s_while, s_ex = while_loops[0], ex_loops[0]

    def D_of(L):
        d = L.patch_links
        if not isinstance(d, _LinkDict):
            raise Unsupported("patch_links is not the copied dict of the linkage")
        return d

    def A(D):
        rem = D.rows.rem
        return forall([a_, b_], Y.yc(a_, b_) + z3.If(z3.And(D.mem(a_), rem(a_, b_), cond(a_, b_)), 1, 0) == spec(a_, b_))

    def irreflexive(D):
        # no patch is left in its own set after the first loop (so `j > i` and `j >= i` are the same test)
        return forall([a_], z3.Implies(D.mem(a_), z3.Not(D.rows.rem(a_, a_))))

    def inv_first(L):
        D = D_of(L)
        jt = to_term(L.j)
        done = lambda a: z3.And(has0(a), st0[2](a) < jt)  # noqa: E731
        return dict(
            rows=SBool(forall([a_, b_], D.rows.rem(a_, b_) == z3.And(link0(a_, b_), z3.Not(z3.And(a_ == b_, done(a_)))))),
            yielded=SBool(forall([a_, b_], Y.yc(a_, b_) == z3.If(z3.And(a_ == b_, done(a_)), 1, 0))),
            keys=SBool(z3.And(to_term(D.n) == to_term(st0[0]), forall([a_], D.key(a_) == st0[1](a_)), forall([a_], D.idx(a_) == st0[2](a_)))))

    def inv_while(L):
        D = D_of(L)
        return dict(wf=SBool(D.wf()), keys=SBool(forall([a_], z3.Implies(D.mem(a_), has0(a_)))), account=SBool(A(D)), irreflexive=SBool(irreflexive(D)))

    def inv_inner(L):
        D = D_of(L)
        E = L.exhausted
        if not isinstance(E, _IdSet):
            raise Unsupported("exhausted is not a set()")
        return dict(account=SBool(A(D)), wf=SBool(E.wf()), irreflexive=SBool(irreflexive(D)),
                    exhausted=SBool(forall([a_, b_], z3.Implies(E.mem(a_), z3.And(D.mem(a_), z3.Not(D.rows.rem(a_, b_)))))))

    def inv_ex(L):
        D, E = D_of(L), L.exhausted
        before = L.old.patch_links
        jt = to_term(L.j)
        return dict(wf=SBool(D.wf()),
                    keys=SBool(forall([a_], D.mem(a_) == z3.And(before.mem(a_), z3.Not(z3.And(E.mem(a_), E.idx(a_) < jt))))))

    # the loop variables are rebound by the following loops before they are read again: any value will do after a loop
    dead = {"i": lambda L: ctx.fresh_int("i_after_loop"), "j": lambda L: ctx.fresh_int("j_after_loop"), "links": lambda L: None}
    specs = {s_first: LoopSpec(inv=inv_first, keep=("patch_links",), fresh=dead),
             s_while: LoopSpec(inv=inv_while, fresh=dead),
             s_inner: LoopSpec(inv=inv_inner, keep=("patch_links",), fresh=dead),
             s_ex: LoopSpec(inv=inv_ex, fresh=dead)}

    class RowsOfCopies:
        """the rows of the dict the function works on are changed by the loops that pop from the sets"""

        def vc_havoc(self, c, n_):
            for d in ctx.ghost["copies"]:
                d.rows.vc_havoc(c, n_)
    ctx.ghost["loop_ghosts"] = {s_first: [RowsOfCopies(), Y], s_while: [RowsOfCopies(), Y], s_inner: [RowsOfCopies(), Y], s_ex: []}
    with Patches() as pt, use_loops(specs):
        pt.set(M, "set", lambda *a: _IdSet(ctx, "exhausted", n=SNum(z3.IntVal(0))) if not a else fail("set(...) with arguments"))
        ctx.canary()
        expect_no_exception(ctx, call(fn, links, auto=auto), name)
    ctx.check(f"{name}/post:works_on_a_copy", len(ctx.ghost["copies"]) == 1)
    a, b = ctx.fresh_int("a"), ctx.fresh_int("b")
    ctx.check(f"{name}/post:every_patch_with_itself_and_every_linked_pair_exactly_once", SBool(Y.yc(a.t, b.t) == spec(a.t, b.t)),
              detail="number of times (a, b) is yielded = [a is a patch and a == b] + [a is a patch, b linked to a, a != b (auto: a < b)]")
    ctx.check(f"{name}/post:linkage_unchanged", And(links.patch_links is orig, SBool(z3.And(to_term(orig.n) == to_term(st0[0]), orig.key(a.t) == st0[1](a.t),
                                                                                       orig.idx(a.t) == st0[2](a.t), orig.rows.rem(a.t, b.t) == link0(a.t, b.t)))),
              detail="the iterator consumes a copy; the linkage can be iterated again (DD, DR, RD, RR share it)")


@unit(P, "correlate.wiring", fuc=["yaw.correlation.measurements:autocorrelate", "yaw.correlation.measurements:crosscorrelate"],
      cases=[dict(fn="auto", rr=True), dict(fn="auto", rr=False), dict(fn="cross", rand="ref"), dict(fn="cross", rand="unk"), dict(fn="cross", rand="both"),
             dict(fn="cross", rand="none")])
def u_wiring(ctx, fn, rr=None, rand=None):
    """which catalogs are linked and counted against which, and in which slot of CorrFunc the result ends: auto: DD = data,
    DR = data x random, RR = random (optional); cross: DD = ref x unk, DR = ref x unk_rand, RD = ref_rand x unk, RR = ref_rand x
    unk_rand (each only if its randoms are given; at least one random catalog required); all catalogs taking part are linked"""
    M = mod("yaw.correlation.measurements")
    log = []

    class Cat:
        def __init__(self, tag):
            self.tag = tag

        def build_trees(self, binning=None, *, closed="right", **k):
            log.append(("build", self.tag, binning, closed))

    class Links:
        def count_pairs(self, *cats, **kw):
            log.append(("count", tuple(c.tag for c in cats)))
            return [("C", tuple(c.tag for c in cats), s) for s in range(2)]

        def count_pairs_optional(self, *cats, **kw):
            if any(c is None for c in cats):
                return [None, None]
            return self.count_pairs(*cats, **kw)

    class Cfg:
        class binning:
            edges, closed = "EDGES", "CLOSED"

        class scales:
            num_scales, rweight = 2, None
        max_workers = None
    name = f"C01/{'autocorrelate' if fn == 'auto' else 'crosscorrelate'}"
    with Patches() as pt:
        pt.set(M.PatchLinkage, "from_catalogs", classmethod(lambda cls, config, *cats: log.append(("link", config, tuple(c.tag for c in cats))) or Links()))
        pt.set(M, "CorrFunc", lambda *a: ("CF",) + a)
        ctx.canary()
        if fn == "auto":
            res = expect_no_exception(ctx, call(M.autocorrelate, Cfg, Cat("data"), Cat("rand"), count_rr=rr), name)
            want = [("CF", ("C", ("data",), s), ("C", ("data", "rand"), s), None, ("C", ("rand",), s) if rr else None) for s in range(2)]
            taking_part = binned = {"data", "rand"}
        else:
            kw = dict(ref_rand=Cat("ref_rand") if rand in ("ref", "both") else None, unk_rand=Cat("unk_rand") if rand in ("unk", "both") else None)
            res = call(M.crosscorrelate, Cfg, Cat("ref"), Cat("unk"), **kw)
            if rand == "none":
                ctx.check(f"{name}/post_exc:at_least_one_random_catalog", isinstance(res, Raised) and isinstance(res.exc, ValueError) and not log)
                return
            res = expect_no_exception(ctx, res, name)
            dr, rd = kw["unk_rand"] is not None, kw["ref_rand"] is not None
            want = [("CF", ("C", ("ref", "unk"), s), ("C", ("ref", "unk_rand"), s) if dr else None, ("C", ("ref_rand", "unk"), s) if rd else None,
                     ("C", ("ref_rand", "unk_rand"), s) if (dr and rd) else None) for s in range(2)]
            taking_part = {"ref", "unk"} | ({"unk_rand"} if dr else set()) | ({"ref_rand"} if rd else set())
            binned = {"ref"} | ({"ref_rand"} if rd else set())
    ctx.check(f"{name}/post:one_result_per_scale_with_every_count_in_its_slot", list(res) == want, detail=f"{res} instead of {want}")
    links = [e for e in log if e[0] == "link"]
    ctx.check(f"{name}/post:one_linkage_over_all_catalogs_taking_part", len(links) == 1 and links[0][1] is Cfg and set(links[0][2]) == taking_part)
    builds = [e for e in log if e[0] == "build"]
    ctx.check(f"{name}/post:binned_samples_use_the_configured_edges_and_closed_side_the_others_no_binning",
              {e[1] for e in builds if e[2] == "EDGES" and e[3] == "CLOSED"} == binned and {e[1] for e in builds if e[2] is None} == taking_part - binned,
              detail="the binned sample's redshift must lie inside the bin as configured (left/right closed)")
    ctx.check(f"{name}/post:trees_built_before_linking", all(k < log.index(links[0]) for k, e in enumerate(log) if e[0] == "build") if links else False)


# tree b of a patch holds exactly the records whose redshift lies in bin b under the configured closed side, and the sum of
# weights stored with it is their true sum: the C10 units on build_trees / AngularTree.__init__, run here as well
def _register_shared():
    from . import C10 as _C10
    from . import C12 as _C12
    # the stored radius bounds the distance of every record to the *stored* centre (premise of the pruning lemma)
    unit(P, "Metadata.compute", fuc=["yaw.catalog.patch:Metadata.compute"], cases=[dict(weighted=w, given=g) for w in (False, True) for g in (False, True)])(_C12.u_compute)
    unit(P, "build_trees", fuc=["yaw.catalog.trees:build_trees"],
         cases=[dict(closed=c, has_weights=w, binned=True) for c in _C10.CLOSED for w in (False, True)] + [dict(closed="right", has_weights=w, binned=False) for w in (False, True)],
         trusted=["groupby contract", "np.digitize"])(_C10.u_build)
    # the angles the pairs are counted in are the configured scales converted at the bin centre: theta = r / D(z) (C15 unit)
    from . import C15 as _C15
    from . import C07 as _C07
    unit(P, "Scales.get_angle_radian", fuc=["yaw.cosmology:Scales.get_angle_radian", "yaw.cosmology:AngularScales._compute_angle",
                                            "yaw.cosmology:PhysicalScales._compute_angle", "yaw.cosmology:ComovingScales._compute_angle"],
         cases=[dict(unit_=u, cosmo=c) for u in _C15.UNITS for c in ("none", "given")])(_C15.u_scales)
    # process_patch_pair walks the cached trees of both patches bin by bin: the iterator yields tree b at position b (C07 unit)
    unit(P, "BinnedTrees.__iter__", fuc=["yaw.catalog.trees:BinnedTrees.__iter__"], cases=[dict(binned=False), dict(binned=True)])(_C07.u_iter)
    # the linkage is built from the centres and radii the catalog reports, in patch order (C12 unit)
    unit(P, "Catalog.accessors", fuc=["yaw.catalog.catalog:Catalog.get_centers", "yaw.catalog.catalog:Catalog.get_radii",
                                      "yaw.catalog.catalog:Catalog.get_num_records"], kind="bounded")(_C12.u_accessors)


# _register_shared() is called by the driver after this module is fully imported (no import cycles)


# ---------------------------------------------------------------------------------------------------------
# bounded stand-ins and replay on the real library
# ---------------------------------------------------------------------------------------------------------

_BAT = {}


def _battery(quick):
    if quick not in _BAT:
        import warnings
        from bounded import c01_pairs
        with warnings.catch_warnings():
            warnings.simplefilter("ignore")
            res = list(c01_pairs.battery(quick))
            n, fails = c01_pairs.iter_pairs_exhaustive(5 if quick else 6)
            res.append((f"iter_patch_id_pairs[all {n} symmetric reflexive link graphs x modes up to {5 if quick else 6} patches]", not fails, "; ".join(fails[:3])))
        _BAT[quick] = res
    return _BAT[quick]


def replay_witness(unit_name, case, ob):
    fails = [(n, d) for n, ok, d in _battery(True) if not ok]
    return {"reproduced": bool(fails), "failed_cases": [f"{n}: {d}" for n, d in fails][:6],
            "note": "autocorrelate/crosscorrelate of the real library against brute force over all object pairs (layouts at the equator, across "
                    "RA=0, at both poles; pruning scenarios), and iter_patch_id_pairs exhaustively"}


def bounded(opts):
    import time
    t0 = time.time()
    quick = opts.get("tier", "quick") == "quick"
    res = _battery(quick)
    fails = [(n, d) for n, ok, d in res if not ok]
    return dict(kind="bounded", bound="real library vs brute force: 3-4 patches x 30-40 objects per catalog; layouts equator / RA wrap / north pole / south pole; "
                "kpc, arcmin, Mpc/h scales, 1-2 scales, left/right closed bins, empty bins, rweight in {None, -1, 0.5} with resolution 5/7; single-object "
                "patches, patch outside the binning; bin centres below z=0.05, bins up to z=6, dense-compact x sparse-wide catalogs (pruning); "
                "iter_patch_id_pairs exhaustively for all symmetric reflexive link graphs up to 5 (thorough: 6) patches, both modes",
                evaluations=len(res), distinct_nontrivial=len(res), violations=[dict(id=f"bounded:{n}", detail=d) for n, d in fails][:12],
                samples=[n for n, _, _ in res[:3]], wall_s=round(time.time() - t0, 2), note="real library; labelled bounded, not counted as proved")


# pair counts are taken from the cached trees: they are exact only if the trees that are reused were built for the requested binning
# (edges and closed side) - the C07 unit on BinnedTrees.build, run here as well
def _register_shared_round9():
    from . import C07 as _C07
    unit(P, "BinnedTrees.build", fuc=["yaw.catalog.trees:BinnedTrees.build", "yaw.catalog.trees:BinnedTrees.binning_equal", "yaw.binning:Binning.__eq__"],
         cases=_C07.CASES)(_C07.u_build)


# _register_shared_round9() is called by the driver after this module is fully imported (no import cycles)


# "no pair is ever lost": every patch-pair task and every tree build handed to the job iterator is executed exactly once (C05 units on the
# job iterators), and the trees are built for every patch of a catalog (C05 unit on Catalog.build_trees)
def _register_shared_tasks():
    from . import C05 as _C05
    unit(P, "_multiprocessing_iter_unordered", fuc=["yaw.utils.parallel:_multiprocessing_iter_unordered"],
         cases=[dict(seq=True, unpack=False), dict(seq=False, unpack=False)], trusted=["Pool.imap_unordered"])(_C05.u_mp_iter)
    unit(P, "iter_unordered", fuc=["yaw.utils.parallel:iter_unordered", "yaw.utils.parallel:get_size"], cases=[dict(given=False), dict(given=True)])(_C05.u_iter_unordered)
    unit(P, "Catalog.build_trees", fuc=["yaw.catalog.catalog:Catalog.build_trees"],
         cases=[dict(binned=b, repeated=False) for b in (False, True)], trusted=["iter_unordered contract"])(_C05.u_cat_build_trees)


# _register_shared_tasks() is called by the driver after this module is fully imported (no import cycles)
