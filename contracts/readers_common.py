"""Source shims and reader fixtures shared by C18 (request log) and C02 (chunk content).

A *source* is a table of n rows; column `name` is the uninterpreted function  col_<name> : Int -> Real.
Every access of a reader to its source is appended to the ghost request log as (kind, start, stop).
ASSUMED source contracts (listed as trusted in the evidence):
  pandas   df[a:b] for 0 <= a <= b           -> rows [min(a,n), min(b,n))         (positional slice, clipped)
  h5py     dataset[a:b] for 0 <= a <= b      -> rows [min(a,n), min(b,n))
  FITS     hdu.data[col][a:b]                -> rows [min(a,n), min(b,n)); view/byteswap keep the values
  generator(size)                            -> `size` rows, appended to the stream of draws
"""
from __future__ import annotations

import z3

from pyvc import core
from pyvc.core import SNum, SBool, Ctx, Unsupported, to_term, tob
from pyvc.arrays import SArr, dim_term
from .common import mod, Min

OPTIONAL_COLUMN_CASES = [dict(w=w, z=z, p=p) for w in (False, True) for z in (False, True) for p in (False, True)]
ATTRS = ("ra", "dec", "weights", "redshifts", "patch_ids")
NAMES = dict(ra="RA", dec="DEC", weights="W", redshifts="Z", patch_ids="PID")


def columns_for(w, z, p):
    cols = {"ra": "RA", "dec": "DEC"}
    if w:
        cols["weights"] = "W"
    if z:
        cols["redshifts"] = "Z"
    if p:
        cols["patch_ids"] = "PID"
    return cols


class Source:
    def __init__(self, ctx, n):
        self.ctx, self.n = ctx, n
        self.log = []
        self.fn = {}

    def col_fn(self, name):
        if name not in self.fn:
            rng = z3.IntSort() if name == "PID" else z3.RealSort()
            self.fn[name] = z3.Function(f"col_{name}", z3.IntSort(), rng)
        return self.fn[name]

    def rows(self, name, lo, length):
        """the rows [lo, lo+length) of a column as array proxy"""
        f = self.col_fn(name)
        lo_t = to_term(lo)
        ln = z3.simplify(to_term(length))
        c = core.const_value(ln)
        a = SArr((c if isinstance(c, int) else SNum(ln),), lambda t: f(lo_t + t), "i" if name == "PID" else "f")
        a.meta["rows"] = (name, SNum(lo_t), SNum(ln))
        return a

    def clip(self, start, stop):
        n = to_term(self.n)
        s, e = to_term(start), to_term(stop)
        if not Ctx.cur.branch(z3.And(s >= 0, e >= s)):
            raise Unsupported("source sliced with negative or reversed bounds (python slice semantics not modelled)")
        lo = z3.If(s < n, s, n)
        hi = z3.If(e < n, e, n)
        return SNum(z3.simplify(lo)), SNum(z3.simplify(hi - lo))


class FrameSlice:
    def __init__(self, src, lo, ln):
        self.src, self.lo, self.ln = src, lo, ln

    def __getitem__(self, name):
        return _Col(self.src, name, self.lo, self.ln)

    def vc_len(self):
        return self.ln


class _Col:
    def __init__(self, src, name, lo, ln):
        self.src, self.name, self.lo, self.ln = src, name, lo, ln

    def to_numpy(self):
        return self.src.rows(self.name, self.lo, self.ln)


class FrameSource(Source):
    """stands for a pandas.DataFrame"""
    kind = "dataframe"

    def __getitem__(self, key):
        if isinstance(key, slice):
            self.ctx.trust("pandas: df[a:b] is the positional row slice clipped to the frame length")
            self.log.append(("slice", SNum(to_term(key.start)), SNum(to_term(key.stop))))
            lo, ln = self.clip(key.start, key.stop)
            return FrameSlice(self, lo, ln)
        raise Unsupported("whole-column access to the data frame")

    def vc_len(self):
        return self.n


class _H5Dataset:
    def __init__(self, src, name):
        self.src, self.name = src, name

    def __getitem__(self, key):
        if isinstance(key, slice):
            self.src.ctx.trust("h5py: dataset[a:b] is the row slice clipped to the dataset length")
            self.src.log.append(("slice:" + self.name, SNum(to_term(key.start)), SNum(to_term(key.stop))))
            lo, ln = self.src.clip(key.start, key.stop)
            return self.src.rows(self.name, lo, ln)
        raise Unsupported("h5py dataset read without a slice")

    def vc_len(self):
        return self.src.n


class HdfSource(Source):
    kind = "hdf5"

    def __getitem__(self, name):
        return _H5Dataset(self, name)


class _FitsCol:
    def __init__(self, src, name):
        self.src, self.name = src, name

    def __getitem__(self, key):
        if isinstance(key, slice):
            self.src.ctx.trust("astropy.io.fits: column[a:b] is the row slice; view(newbyteorder).byteswap keeps values")
            self.src.log.append(("slice:" + self.name, SNum(to_term(key.start)), SNum(to_term(key.stop))))
            lo, ln = self.src.clip(key.start, key.stop)
            return _FitsArr(self.src.rows(self.name, lo, ln))
        raise Unsupported("fits column read without a slice")


class _FitsArr:
    """big-endian FITS array: only view(dtype.newbyteorder()).byteswap() is used by the repository"""

    def __init__(self, arr):
        self.arr = arr

    class _DT:
        def newbyteorder(self):
            return "swapped"

    dtype = _DT()

    def view(self, dt):
        if dt != "swapped":
            raise Unsupported("fits array view with another dtype")
        return _FitsArr(self.arr)

    def byteswap(self):
        return self.arr


class FitsSource(Source):
    kind = "fits"

    def __getitem__(self, name):
        return _FitsCol(self, name)

    def vc_len(self):
        return self.n


def make_reader(ctx, cls_name, w, z, p, degrees=None):
    """a reader instance in an arbitrary state satisfying the class invariant, without running __init__"""
    R = mod("yaw.catalog.readers")
    D = mod("yaw.datachunk")
    cls = getattr(R, cls_name)
    r = cls.__new__(cls)
    n = ctx.fresh_int("n", lo=0, size=True)
    c = ctx.fresh_int("chunksize", lo=0)
    ctx.assume(z3.Or(c.t >= 1, n.t == 0), "type:reader invariant chunksize >= 1 unless the source is empty")
    r._num_records = n
    r.chunksize = c
    r._columns = columns_for(w, z, p)
    r._chunk_info = D.DataChunkInfo(has_weights=w, has_redshifts=z, has_patch_ids=p)
    r.degrees = ctx.fresh_bool("degrees") if degrees is None else degrees
    ctx.inputs.update(n=("int", n), chunksize=("int", c))
    return r, n, c


class ChunkToken:
    """result of the DataChunk.create stub: remembers what it was made from"""

    def __init__(self, kwargs, degrees, chkfinite):
        self.kwargs, self.degrees, self.chkfinite = kwargs, degrees, chkfinite


def stub_datachunk_create(ctx, patches, calls):
    D = mod("yaw.datachunk")

    def create(ra, dec, *, weights=None, redshifts=None, patch_ids=None, degrees=True, chkfinite=True):
        kw = dict(ra=ra, dec=dec, weights=weights, redshifts=redshifts, patch_ids=patch_ids)
        tok = ChunkToken({k: v for k, v in kw.items() if v is not None}, degrees, chkfinite)
        calls.append(tok)
        info = D.DataChunkInfo(has_weights=weights is not None, has_redshifts=redshifts is not None,
                               has_patch_ids=patch_ids is not None)
        return info, tok
    patches.replace_function("yaw.datachunk:DataChunk.create", create)
