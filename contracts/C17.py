"""C17 - pair-count and data containers obey their documented algebra and indexing.

For arbitrary numbers of bins/patches/samples, arbitrary cells and arbitrary (also negative) indices and slice bounds:
  +            adds the counts cell-wise, requires equal binning (edges and closed side) and equal number of patches
  * scalar     scales the counts cell-wise (weights untouched); non-scalars and booleans are NotImplemented
  ==           reflexive, and true exactly when binning, arrays and flags are equal (structural)
  bins[item]   / patches[item]: the corresponding sub-array with the right rank, for an int, a slice, iteration
  commutation  x.bins[s].sample_patch_sum() == x.sample_patch_sum().bins[s]
  errors       incompatible operands / out-of-range indices raise
"""
from __future__ import annotations

import z3

from pyvc import core, shadow, sigma
from pyvc.core import SNum, SBool, Ctx, EndPath, to_term, tob, to_real
from pyvc.arrays import SArr, bv, in_range, forall, dim_term
from pyvc.builtins_shim import vc_len
from .common import And, Or, Implies, Not, ForAll, Ite, Min, Max, mod, unit, call, Raised, expect_no_exception, fail, Patches
from . import containers_common as CC

P = "C17"
EXPLANATION = (
    "Deductive: the operators and indexing helpers of PatchedCounts, PatchedSumWeights, NormalisedCounts, CorrFunc, "
    "SampledData, Binning and the Indexer are re-read from the current source and executed on symbolic containers "
    "(symbolic shapes, symbolic contents, symbolic indices and slice bounds); results are compared cell-wise with "
    "the algebra of the statement; exceptional exits are compared with the incompatibility conditions.")
TRUSTED = []
NOT_DECIDED = ["sample(c*x) == sample(x) is proved for the estimator layer (ratio invariance) relative to the linearity "
               "of the patch sums"]
ASSUMPTIONS = []


def two_binnings(ctx, closed_a="left", closed_b="left"):   # not the library default: a lost closed= argument shows
    ba, nba = CC.make_binning(ctx, closed_a, hint="edges_a")
    nbb = ctx.fresh_int("num_bins_b", lo=1, size=True)
    bb, _ = CC.make_binning(ctx, closed_b, nb=nbb, hint="edges_b")
    return ba, nba, bb, nbb


def binning_equal(ba, nba, bb, nbb):
    return And(nba == nbb, str(ba.closed) == str(bb.closed),
               ForAll("t", lambda t: Implies(And(t >= 0, t <= nba), ba.edges.at(t) == bb.edges.at(t))))


def mono(ctx, binning, nb):
    """strictly increasing => ordered (proved lemma, see C10 monotone_lemma)"""
    f = binning.edges.meta["fn"]
    a, b = bv("a"), bv("b")
    ctx.assume(forall([a, b], z3.Implies(z3.And(a >= 0, a < b, b <= to_term(nb)), f(a) < f(b)),
                      patterns=[z3.MultiPattern(f(a), f(b))]), "lemma:strictly increasing implies ordered")


# ---------------------------------------------------------------------------------------------------------
# addition / multiplication / equality
# ---------------------------------------------------------------------------------------------------------

@unit(P, "PatchedCounts.__add__", fuc=["yaw.correlation.paircounts:PatchedCounts.__add__",
                                      "yaw.correlation.paircounts:BinwisePatchwiseArray.is_compatible",
                                      "yaw.utils.abc:BinwiseData.is_compatible", "yaw.utils.abc:PatchwiseData.is_compatible",
                                      "yaw.binning:Binning.__eq__", "yaw.correlation.paircounts:PatchedCounts.__init__"],
      cases=[dict(ca=a, cb=b) for a in ("left", "right") for b in ("left", "right")])
def u_pc_add(ctx, ca, cb):
    ba, nba, bb, nbb = two_binnings(ctx, ca, cb)
    Na = ctx.fresh_int("num_patches_a", lo=1, size=True)
    Nb = ctx.fresh_int("num_patches_b", lo=1, size=True)
    x = CC.make_patched_counts(ctx, ba, nba, Na, False, "xa")
    y = CC.make_patched_counts(ctx, bb, nbb, Nb, False, "xb")
    name = "C17/PatchedCounts.__add__"
    ctx.canary()
    res = call(type(x).__add__, x, y)
    compat = And(binning_equal(ba, nba, bb, nbb), Na == Nb)
    if isinstance(res, Raised):
        ctx.cover("rejects")
        ctx.check(f"{name}/post_exc[ValueError]:only_incompatible_operands", And(isinstance(res.exc, ValueError), Not(compat)))
        return
    ctx.cover("adds")
    ctx.check(f"{name}/post:operands_were_compatible", compat)
    b, i, j = ctx.fresh_int("b", lo=0), ctx.fresh_int("i", lo=0), ctx.fresh_int("j", lo=0)
    ctx.assume(z3.And(b.t < nba.t, i.t < Na.t, j.t < Na.t), "post:arbitrary cell")
    ctx.check(f"{name}/post:shape", And(res.counts.shape[0] == nba, res.counts.shape[1] == Na, res.counts.shape[2] == Na))
    ctx.check(f"{name}/post:cells_added", res.counts.elem(b.t, i.t, j.t) == x.counts.elem(b.t, i.t, j.t) + y.counts.elem(b.t, i.t, j.t))
    ctx.check(f"{name}/post:binning_and_flag", And(res.binning is ba, res.auto == x.auto))
    ctx.check(f"{name}/frame:operands_unchanged", And(x.counts.shape[0] == nba, y.counts.shape[0] == nbb))


@unit(P, "PatchedCounts.__add__.other_types", fuc=["yaw.correlation.paircounts:PatchedCounts.__add__",
                                                  "yaw.correlation.paircounts:PatchedCounts.__radd__"])
def u_pc_add_types(ctx):
    binning, nb = CC.make_binning(ctx)
    N = ctx.fresh_int("num_patches", lo=1, size=True)
    x = CC.make_patched_counts(ctx, binning, nb, N, False)
    ctx.canary()
    ctx.check("C17/PatchedCounts.__add__/post:non_container_not_implemented", call(type(x).__add__, x, 3.0) is NotImplemented)
    ctx.check("C17/PatchedCounts.__radd__/post:zero_is_neutral_for_sum()", call(type(x).__radd__, x, 0) is x)
    r = call(type(x).__radd__, x, 1)
    ctx.check("C17/PatchedCounts.__radd__/post:other_scalars_not_implemented", r is NotImplemented)


@unit(P, "PatchedCounts.__mul__", fuc=["yaw.correlation.paircounts:PatchedCounts.__mul__"])
def u_pc_mul(ctx):
    binning, nb = CC.make_binning(ctx)
    N = ctx.fresh_int("num_patches", lo=1, size=True)
    x = CC.make_patched_counts(ctx, binning, nb, N, True)
    c = ctx.fresh_real("c")
    name = "C17/PatchedCounts.__mul__"
    ctx.canary()
    res = expect_no_exception(ctx, call(type(x).__mul__, x, c), name)
    b, i, j = ctx.fresh_int("b", lo=0), ctx.fresh_int("i", lo=0), ctx.fresh_int("j", lo=0)
    ctx.assume(z3.And(b.t < nb.t, i.t < N.t, j.t < N.t), "post:arbitrary cell")
    ctx.check(f"{name}/post:cells_scaled", res.counts.elem(b.t, i.t, j.t) == x.counts.elem(b.t, i.t, j.t) * c.t)
    ctx.check(f"{name}/post:binning_and_flag", And(res.binning is binning, res.auto == x.auto))
    ctx.check(f"{name}/post:booleans_not_implemented", call(type(x).__mul__, x, True) is NotImplemented)
    ctx.check(f"{name}/post:arrays_not_implemented", call(type(x).__mul__, x, [1.0, 2.0]) is NotImplemented)


@unit(P, "NormalisedCounts.algebra", fuc=["yaw.correlation.paircounts:NormalisedCounts.__add__",
                                         "yaw.correlation.paircounts:NormalisedCounts.__mul__",
                                         "yaw.correlation.paircounts:NormalisedCounts.__radd__",
                                         "yaw.correlation.paircounts:NormalisedCounts.__init__"])
def u_nc_algebra(ctx):
    """+ adds the counts and requires identical weights; * scales the counts and keeps the weights"""
    PC = mod("yaw.correlation.paircounts")
    binning, nb = CC.make_binning(ctx)
    N = ctx.fresh_int("num_patches", lo=1, size=True)
    x = CC.make_normalised(ctx, binning, nb, N, False, "x_")
    y = CC.make_normalised(ctx, binning, nb, N, False, "y_")
    c = ctx.fresh_real("c")
    ctx.canary()
    name = "C17/NormalisedCounts.__mul__"
    res = expect_no_exception(ctx, call(PC.NormalisedCounts.__mul__, x, c), name)
    b, i, j = ctx.fresh_int("b", lo=0), ctx.fresh_int("i", lo=0), ctx.fresh_int("j", lo=0)
    ctx.assume(z3.And(b.t < nb.t, i.t < N.t, j.t < N.t), "post:arbitrary cell")
    ctx.check(f"{name}/post:counts_scaled", res.counts.counts.elem(b.t, i.t, j.t) == x.counts.counts.elem(b.t, i.t, j.t) * c.t)
    ctx.check(f"{name}/post:weights_untouched", res.sum_weights is x.sum_weights)
    name = "C17/NormalisedCounts.__add__"
    res = call(PC.NormalisedCounts.__add__, x, y)
    same_w = And(ForAll(("p", "q"), lambda p, q: Implies(And(p >= 0, p < nb, q >= 0, q < N),
                                                        And(x.sum_weights.sum_weights1.at(p, q) == y.sum_weights.sum_weights1.at(p, q),
                                                            x.sum_weights.sum_weights2.at(p, q) == y.sum_weights.sum_weights2.at(p, q)))))
    if isinstance(res, Raised):
        ctx.cover("rejects")
        ctx.check(f"{name}/post_exc[ValueError]:only_if_weights_differ", And(isinstance(res.exc, ValueError), Not(same_w)))
    else:
        ctx.cover("adds")
        ctx.check(f"{name}/post:weights_were_identical", same_w)
        ctx.check(f"{name}/post:counts_added", res.counts.counts.elem(b.t, i.t, j.t) ==
                  x.counts.counts.elem(b.t, i.t, j.t) + y.counts.counts.elem(b.t, i.t, j.t))
        ctx.check(f"{name}/post:weights_kept", res.sum_weights is x.sum_weights)
    ctx.check("C17/NormalisedCounts.__radd__/post:zero_is_neutral", call(PC.NormalisedCounts.__radd__, x, 0) is x)


@unit(P, "equality", fuc=["yaw.correlation.paircounts:PatchedCounts.__eq__", "yaw.correlation.paircounts:PatchedSumWeights.__eq__",
                         "yaw.correlation.paircounts:NormalisedCounts.__eq__", "yaw.correlation.corrdata:SampledData.__eq__",
                         "yaw.binning:Binning.__eq__"], cases=[dict(ca=a, cb=b) for a in ("left", "right") for b in ("left", "right")])
def u_eq(ctx, ca, cb):
    """== is reflexive and holds exactly when binning, contents and flags are equal"""
    ba, nba, bb, nbb = two_binnings(ctx, ca, cb)
    Na = ctx.fresh_int("num_patches_a", lo=1, size=True)
    Nb = ctx.fresh_int("num_patches_b", lo=1, size=True)
    x = CC.make_patched_counts(ctx, ba, nba, Na, False, "xa")
    y = CC.make_patched_counts(ctx, bb, nbb, Nb, ctx.fresh_bool("auto_b"), "xb")
    ctx.canary()
    name = "C17/PatchedCounts.__eq__"
    r = expect_no_exception(ctx, call(lambda: bool(x == x)), name)
    ctx.check(f"{name}/post:reflexive", r is True)
    r = expect_no_exception(ctx, call(lambda: bool(x == y)), name)
    structural = And(binning_equal(ba, nba, bb, nbb), Na == Nb, y.auto == x.auto,
                     ForAll(("b", "i", "j"), lambda b, i, j: Implies(And(b >= 0, b < nba, i >= 0, i < Na, j >= 0, j < Na),
                                                                     x.counts.at(b, i, j) == y.counts.at(b, i, j))))
    ctx.check(f"{name}/post:structural", structural if r else Not(structural))
    ctx.check(f"{name}/post:other_type_is_not_equal", (x == 1.0) is False or (x == 1.0) is NotImplemented or not (x == 1.0))
    # SampledData
    S = ctx.fresh_int("num_samples", lo=1, size=True)
    sx = CC.make_sampled(ctx, ba, nba, S, "sa")
    r = expect_no_exception(ctx, call(lambda: bool(sx == sx)), "C17/SampledData.__eq__")
    ctx.check("C17/SampledData.__eq__/post:reflexive", r is True)
    # Binning
    r = expect_no_exception(ctx, call(lambda: bool(ba == bb)), "C17/Binning.__eq__")
    ctx.check("C17/Binning.__eq__/post:structural", binning_equal(ba, nba, bb, nbb) if r else Not(binning_equal(ba, nba, bb, nbb)))


@unit(P, "SampledData.__add__/__sub__", fuc=["yaw.correlation.corrdata:SampledData.__add__", "yaw.correlation.corrdata:SampledData.__sub__",
                                           "yaw.correlation.corrdata:SampledData.is_compatible", "yaw.binning:Binning.copy"],
      cases=[dict(op="add"), dict(op="sub")])
def u_sd_addsub(ctx, op):
    CD = mod("yaw.correlation.corrdata")
    ba, nba, bb, nbb = two_binnings(ctx)
    Sa = ctx.fresh_int("num_samples_a", lo=1, size=True)
    Sb = ctx.fresh_int("num_samples_b", lo=1, size=True)
    x = CC.make_sampled(ctx, ba, nba, Sa, "xa")
    y = CC.make_sampled(ctx, bb, nbb, Sb, "xb")
    mono(ctx, ba, nba)
    name = f"C17/SampledData.__{op}__"
    ctx.canary()
    res = call(getattr(CD.SampledData, f"__{op}__"), x, y)
    compat = And(binning_equal(ba, nba, bb, nbb), Sa == Sb)
    if isinstance(res, Raised):
        ctx.cover("rejects")
        ctx.check(f"{name}/post_exc[ValueError]:only_incompatible_operands", And(isinstance(res.exc, ValueError), Not(compat)),
                  detail=f"{type(res.exc).__name__}: {res.exc}")
        return
    ctx.cover("ok")
    ctx.check(f"{name}/post:operands_were_compatible", compat)
    b, k = ctx.fresh_int("b", lo=0), ctx.fresh_int("k", lo=0)
    ctx.assume(z3.And(b.t < nba.t, k.t < Sa.t), "post:arbitrary bin and sample")
    sgn = 1 if op == "add" else -1
    ctx.check(f"{name}/post:data", res.data.elem(b.t) == x.data.elem(b.t) + sgn * y.data.elem(b.t))
    ctx.check(f"{name}/post:samples", res.samples.elem(k.t, b.t) == x.samples.elem(k.t, b.t) + sgn * y.samples.elem(k.t, b.t))
    ctx.check(f"{name}/post:binning_copied_not_shared", And(res.binning is not ba, binning_equal(res.binning, nba, ba, nba)))
    ctx.check(f"{name}/post:same_type", type(res) is type(x))


# ---------------------------------------------------------------------------------------------------------
# indexing
# ---------------------------------------------------------------------------------------------------------

def _norm_index(i, n):
    return Ite(i < 0, i + n, i)


def _slice_bounds(lo, hi, n):
    """python slice semantics for [lo:hi] on length n (step 1)"""
    l = Ite(lo < 0, Max(lo + n, 0), Min(lo, n))
    h = Ite(hi < 0, Max(hi + n, 0), Min(hi, n))
    return l, Max(h - l, 0)


@unit(P, "Binning.__getitem__", fuc=["yaw.binning:Binning.__getitem__", "yaw.binning:Binning.left", "yaw.binning:Binning.right",
                                    "yaw.binning:Binning.__init__", "yaw.binning:parse_binning"],
      cases=[dict(kind=k, closed=c) for k in ("int", "slice") for c in ("left", "right")])
def u_binning_getitem(ctx, kind, closed):
    """binning[i] is bin i (also for negative i); binning[lo:hi] the contiguous sub-binning with the same closed side; out of
    range raises"""
    binning, nb = CC.make_binning(ctx, closed)
    mono(ctx, binning, nb)
    name = "C17/Binning.__getitem__"
    ctx.canary()
    if kind == "int":
        i = ctx.fresh_int("item")
        ctx.inputs["item"] = ("int", i)
        res = call(type(binning).__getitem__, binning, i)
        valid = And(i >= -nb, i < nb)
        if isinstance(res, Raised):
            ctx.cover("rejects")
            ctx.check(f"{name}/post_exc[IndexError]:only_out_of_range", And(isinstance(res.exc, IndexError), Not(valid)))
            return
        ctx.cover("selects")
        k = _norm_index(i, nb)
        ctx.check(f"{name}/post:index_was_valid", valid)
        ctx.check(f"{name}/post:one_bin", vc_len(res) == 1)
        ctx.check(f"{name}/post:edges_of_bin_i", And(res.edges.at(0) == binning.edges.at(k), res.edges.at(1) == binning.edges.at(k + 1)))
        ctx.check(f"{name}/post:closed_kept", res.closed == binning.closed)
    else:
        lo, hi = ctx.fresh_int("lo"), ctx.fresh_int("hi")
        ctx.inputs.update(lo=("int", lo), hi=("int", hi))
        res = call(type(binning).__getitem__, binning, slice(lo, hi))
        l, ln = _slice_bounds(lo, hi, nb)
        if isinstance(res, Raised):
            ctx.cover("rejects")
            ctx.check(f"{name}/post_exc:only_for_an_empty_selection", And(isinstance(res.exc, (IndexError, ValueError)), ln == 0))
            return
        ctx.cover("selects")
        ctx.check(f"{name}/post:selection_not_empty", ln >= 1)
        ctx.check(f"{name}/post:number_of_bins", vc_len(res) == ln)
        t = ctx.fresh_int("t", lo=0)
        ctx.assume(t.t <= ln.t, "post:arbitrary edge")
        ctx.check(f"{name}/post:edges_are_the_contiguous_sub_range", res.edges.at(t) == binning.edges.at(l + t))
        ctx.check(f"{name}/post:closed_kept", res.closed == binning.closed)


def _slice_unit(ctx, which, kind, cont):
    """_make_bin_slice/_make_patch_slice of PatchedCounts (cont='pc') or PatchedSumWeights (cont='sw')"""
    binning, nb = CC.make_binning(ctx, "left")   # not the default closed side: a lost argument shows
    mono(ctx, binning, nb)
    N = ctx.fresh_int("num_patches", lo=1, size=True)
    x = CC.make_patched_counts(ctx, binning, nb, N, False) if cont == "pc" else CC.make_sum_weights(ctx, binning, nb, N, False)
    fn = getattr(type(x), f"_make_{which}_slice")
    n_axis = nb if which == "bin" else N
    cname = "PatchedCounts" if cont == "pc" else "PatchedSumWeights"
    name = f"C17/{cname}._make_{which}_slice[{kind}]"
    ctx.canary()
    if kind == "int":
        i = ctx.fresh_int("item")
        ctx.inputs["item"] = ("int", i)
        res = call(fn, x, i)
        valid = And(i >= -n_axis, i < n_axis)
        lo, ln = _norm_index(i, n_axis), SNum(z3.IntVal(1))
    else:
        a, b_ = ctx.fresh_int("lo"), ctx.fresh_int("hi")
        ctx.inputs.update(lo=("int", a), hi=("int", b_))
        res = call(fn, x, slice(a, b_))
        lo, ln = _slice_bounds(a, b_, n_axis)
        valid = (ln >= 1) if which == "bin" else SBool(z3.BoolVal(True))
    if isinstance(res, Raised):
        ctx.cover("rejects")
        ctx.check(f"{name}/post_exc:only_invalid_selection", And(isinstance(res.exc, (IndexError, ValueError)), Not(valid)),
                  detail=f"{type(res.exc).__name__}: {res.exc}")
        return
    ctx.cover("selects")
    ctx.check(f"{name}/post:selection_was_valid", valid)
    b, i2, j2 = ctx.fresh_int("b", lo=0), ctx.fresh_int("i", lo=0), ctx.fresh_int("j", lo=0)
    if cont == "pc":
        arr = res.counts
        ctx.check(f"{name}/post:rank_3", arr.ndim == 3)
        if which == "bin":
            ctx.check(f"{name}/post:shape", And(arr.shape[0] == ln, arr.shape[1] == N, arr.shape[2] == N))
            ctx.assume(z3.And(b.t < ln.t, i2.t < N.t, j2.t < N.t), "post:arbitrary cell")
            ctx.check(f"{name}/post:cells", arr.elem(b.t, i2.t, j2.t) == x.counts.elem((lo + b).t, i2.t, j2.t))
            ctx.check(f"{name}/post:binning_sliced_alike", And(vc_len(res.binning) == ln, res.binning.edges.at(0) == binning.edges.at(lo),
                                                               str(res.binning.closed) == str(binning.closed)))
        else:
            ctx.check(f"{name}/post:shape", And(arr.shape[0] == nb, arr.shape[1] == ln, arr.shape[2] == ln))
            ctx.assume(z3.And(b.t < nb.t, i2.t < ln.t, j2.t < ln.t), "post:arbitrary cell")
            ctx.check(f"{name}/post:cells", arr.elem(b.t, i2.t, j2.t) == x.counts.elem(b.t, (lo + i2).t, (lo + j2).t))
            ctx.check(f"{name}/post:binning_kept", res.binning is binning)
    else:
        for nm in ("sum_weights1", "sum_weights2"):
            arr, src = getattr(res, nm), getattr(x, nm)
            ctx.check(f"{name}/post:rank_2[{nm}]", arr.ndim == 2)
            if which == "bin":
                ctx.check(f"{name}/post:shape[{nm}]", And(arr.shape[0] == ln, arr.shape[1] == N))
                ctx.assume(z3.And(b.t < ln.t, i2.t < N.t), "post:arbitrary cell")
                ctx.check(f"{name}/post:cells[{nm}]", arr.elem(b.t, i2.t) == src.elem((lo + b).t, i2.t))
            else:
                ctx.check(f"{name}/post:shape[{nm}]", And(arr.shape[0] == nb, arr.shape[1] == ln))
                ctx.assume(z3.And(b.t < nb.t, i2.t < ln.t), "post:arbitrary cell")
                ctx.check(f"{name}/post:cells[{nm}]", arr.elem(b.t, i2.t) == src.elem(b.t, (lo + i2).t))
    ctx.check(f"{name}/post:flag_kept", res.auto == x.auto)


@unit(P, "containers._make_slice", fuc=["yaw.correlation.paircounts:PatchedCounts._make_bin_slice",
                                       "yaw.correlation.paircounts:PatchedCounts._make_patch_slice",
                                       "yaw.correlation.paircounts:PatchedSumWeights._make_bin_slice",
                                       "yaw.correlation.paircounts:PatchedSumWeights._make_patch_slice",
                                       "yaw.correlation.paircounts:PatchedSumWeights.__init__"],
      cases=[dict(which=w, kind=k, cont=c) for w in ("bin", "patch") for k in ("int", "slice") for c in ("pc", "sw")])
def u_slices(ctx, which, kind, cont):
    _slice_unit(ctx, which, kind, cont)


@unit(P, "SampledData._make_bin_slice", fuc=["yaw.correlation.corrdata:SampledData._make_bin_slice"],
      cases=[dict(kind="int"), dict(kind="slice")])
def u_sd_slice(ctx, kind):
    CD = mod("yaw.correlation.corrdata")
    binning, nb = CC.make_binning(ctx, "left")   # not the default closed side: a lost argument shows
    mono(ctx, binning, nb)
    S = ctx.fresh_int("num_samples", lo=1, size=True)
    x = CC.make_sampled(ctx, binning, nb, S)
    name = f"C17/SampledData._make_bin_slice[{kind}]"
    ctx.canary()
    if kind == "int":
        i = ctx.fresh_int("item")
        res = call(CD.SampledData._make_bin_slice, x, i)
        valid = And(i >= -nb, i < nb)
        lo, ln = _norm_index(i, nb), SNum(z3.IntVal(1))
    else:
        a, b_ = ctx.fresh_int("lo"), ctx.fresh_int("hi")
        res = call(CD.SampledData._make_bin_slice, x, slice(a, b_))
        lo, ln = _slice_bounds(a, b_, nb)
        valid = ln >= 1
    if isinstance(res, Raised):
        ctx.cover("rejects")
        ctx.check(f"{name}/post_exc:only_invalid_selection", And(isinstance(res.exc, (IndexError, ValueError)), Not(valid)))
        return
    ctx.cover("selects")
    b, k = ctx.fresh_int("b", lo=0), ctx.fresh_int("k", lo=0)
    ctx.assume(z3.And(b.t < ln.t, k.t < S.t), "post:arbitrary cell")
    ctx.check(f"{name}/post:ranks", And(res.data.ndim == 1, res.samples.ndim == 2))
    ctx.check(f"{name}/post:shapes", And(res.data.shape[0] == ln, res.samples.shape[0] == S, res.samples.shape[1] == ln))
    ctx.check(f"{name}/post:data", res.data.elem(b.t) == x.data.elem((lo + b).t))
    ctx.check(f"{name}/post:samples", res.samples.elem(k.t, b.t) == x.samples.elem(k.t, (lo + b).t))
    ctx.check(f"{name}/post:binning", vc_len(res.binning) == ln)
    r2 = call(CD.SampledData._make_bin_slice, x, 1.5)
    ctx.check(f"{name}/post_exc:non_integer_selector_rejected", isinstance(r2, Raised) and isinstance(r2.exc, TypeError))


@unit(P, "Indexer", fuc=["yaw.utils.abc:Indexer.__init__", "yaw.utils.abc:Indexer.__getitem__", "yaw.utils.abc:Indexer.__next__",
                        "yaw.utils.abc:Indexer.__iter__", "yaw.utils.abc:BinwiseData.bins", "yaw.utils.abc:PatchwiseData.patches"])
def u_indexer(ctx):
    """iteration yields item t for t = 0..len-1 and then stops (the callback's IndexError ends the iteration)"""
    A = mod("yaw.utils.abc")
    n = ctx.fresh_int("n", lo=0, size=True)
    calls = []

    def callback(item):
        calls.append(item)
        if isinstance(item, slice):
            return ("SLICE", item)
        if not bool(And(item >= -n, item < n)):
            raise IndexError("out of range")
        return ("ITEM", item)
    ix = A.Indexer(callback)
    ctx.canary()
    ctx.check("C17/Indexer.__init__/post:fresh_state", ix._iter_state == 0)
    r = expect_no_exception(ctx, call(lambda: ix[slice(1, 2)]), "C17/Indexer.__getitem__")
    ctx.check("C17/Indexer.__getitem__/post:delegates", r[0] == "SLICE")
    t = ctx.fresh_int("t", lo=0, size=True)
    ix._iter_state = t
    del calls[:]
    res = call(A.Indexer.__next__, ix)
    if isinstance(res, Raised):
        ctx.cover("stop")
        ctx.check("C17/Indexer.__next__/post_exc[StopIteration]:only_at_the_end", And(isinstance(res.exc, StopIteration), t >= n))
        ctx.check("C17/Indexer.__next__/frame:state_unchanged", ix._iter_state == t)
    else:
        ctx.cover("item")
        ctx.check("C17/Indexer.__next__/post:item_t", And(t < n, res[0] == "ITEM", res[1] == t))
        ctx.check("C17/Indexer.__next__/post:advances", ix._iter_state == t + 1)
    it = expect_no_exception(ctx, call(A.Indexer.__iter__, ix), "C17/Indexer.__iter__")
    ctx.check("C17/Indexer.__iter__/post:restarts", And(it is ix, ix._iter_state == 0))


@unit(P, "commutation", fuc=["yaw.correlation.paircounts:PatchedCounts._make_bin_slice",
                            "yaw.correlation.paircounts:BinwisePatchwiseArray.sample_patch_sum",
                            "yaw.correlation.corrdata:SampledData._make_bin_slice"])
def u_commute(ctx):
    """x.bins[lo:hi].sample_patch_sum() == x.sample_patch_sum().bins[lo:hi]  (value and every jackknife row)"""
    binning, nb = CC.make_binning(ctx, "left")   # not the default closed side: a lost argument shows
    mono(ctx, binning, nb)
    N = ctx.fresh_int("num_patches", lo=1, size=True)
    x = CC.make_patched_counts(ctx, binning, nb, N, False)
    a, b_ = ctx.fresh_int("lo", lo=0), ctx.fresh_int("hi", lo=0)
    ctx.assume(z3.And(a.t < b_.t, b_.t <= nb.t), "pre:non-empty in-range slice")
    name = "C17/commutation"
    ctx.canary()
    lhs = expect_no_exception(ctx, call(lambda: x.bins[a:b_].sample_patch_sum()), name)
    rhs = expect_no_exception(ctx, call(lambda: x.sample_patch_sum().bins[a:b_]), name)
    b, k = ctx.fresh_int("b", lo=0), ctx.fresh_int("k", lo=0)
    ctx.assume(z3.And(b.t < (b_ - a).t, k.t < N.t), "post:arbitrary bin and row")
    ctx.check(f"{name}/post:shapes", And(lhs.data.shape[0] == rhs.data.shape[0], lhs.samples.shape[1] == rhs.samples.shape[1]))
    ctx.check(f"{name}/post:values_commute", lhs.data.elem(b.t) == rhs.data.elem(b.t))
    ctx.check(f"{name}/post:jackknife_rows_commute", lhs.samples.elem(k.t, b.t) == rhs.samples.elem(k.t, b.t))


@unit(P, "CorrFunc.algebra", fuc=["yaw.correlation.corrfunc:CorrFunc.__add__", "yaw.correlation.corrfunc:CorrFunc.__mul__",
                                 "yaw.correlation.corrfunc:CorrFunc.__eq__", "yaw.correlation.corrfunc:CorrFunc._make_bin_slice",
                                 "yaw.correlation.corrfunc:CorrFunc._make_patch_slice", "yaw.correlation.corrfunc:CorrFunc.is_compatible",
                                 "yaw.correlation.corrfunc:CorrFunc.to_dict", "yaw.correlation.corrfunc:CorrFunc.__init__"],
      cases=[dict(dr=a, rd=b, rr=c) for a in (False, True) for b in (False, True) for c in (False, True) if (a or b or c)])
def u_cf(ctx, dr, rd, rr):
    """CorrFunc applies +, * and the slicing helpers member-wise to exactly the present members"""
    CF = mod("yaw.correlation.corrfunc")
    log = []

    class M:
        """stands for NormalisedCounts: records the operations applied to it (callee contracts proved above)"""

        def __init__(self, tag):
            self.tag = tag

        def __add__(self, o):
            log.append(("add", self.tag, getattr(o, "tag", o)))
            return M(("add", self.tag, o.tag))

        def __mul__(self, c):
            log.append(("mul", self.tag, c))
            return M(("mul", self.tag))

        def __eq__(self, o):
            return isinstance(o, M) and self.tag == o.tag

        def __ne__(self, o):
            return not self.__eq__(o)

        __hash__ = None

        def is_compatible(self, o, *, require=False):
            log.append(("compat", self.tag, getattr(o, "tag", o), require))
            return True

        class _Ix:
            def __init__(self, owner, what):
                self.owner, self.what = owner, what

            def __getitem__(self, item):
                log.append((self.what, self.owner.tag, item))
                return M((self.what, self.owner.tag))

        @property
        def bins(self):
            return M._Ix(self, "bins")

        @property
        def patches(self):
            return M._Ix(self, "patches")
    present = dict(dd=True, dr=dr, rd=rd, rr=rr)

    def mk(suffix):
        return CF.CorrFunc(*(M(k + suffix) if present[k] else None for k in ("dd", "dr", "rd", "rr")))
    ctx.canary()
    x = expect_no_exception(ctx, call(mk, "1"), "C17/CorrFunc.__init__")
    y = expect_no_exception(ctx, call(mk, "2"), "C17/CorrFunc.__init__")
    kinds = [k for k in ("dd", "dr", "rd", "rr") if present[k]]
    del log[:]
    s = expect_no_exception(ctx, call(CF.CorrFunc.__add__, x, y), "C17/CorrFunc.__add__")
    ctx.check("C17/CorrFunc.__add__/post:member_wise", all(getattr(s, k).tag == ("add", k + "1", k + "2") for k in kinds) and
              all(getattr(s, k) is None for k in present if not present[k]))
    ctx.check("C17/CorrFunc.__add__/post:compatibility_required", any(e[0] == "compat" and e[3] for e in log))
    c = ctx.fresh_real("c")
    del log[:]
    m = expect_no_exception(ctx, call(CF.CorrFunc.__mul__, x, c), "C17/CorrFunc.__mul__")
    ctx.check("C17/CorrFunc.__mul__/post:every_present_member_scaled_by_c",
              sorted(e[1] for e in log if e[0] == "mul") == sorted(k + "1" for k in kinds) and all(e[2] is c for e in log if e[0] == "mul"))
    ctx.check("C17/CorrFunc.__mul__/post:absent_members_stay_absent", all(getattr(m, k) is None for k in present if not present[k]))
    ctx.check("C17/CorrFunc.__mul__/post:booleans_not_implemented", call(CF.CorrFunc.__mul__, x, True) is NotImplemented)
    ctx.check("C17/CorrFunc.__eq__/post:reflexive", call(CF.CorrFunc.__eq__, x, x) is True)
    ctx.check("C17/CorrFunc.__eq__/post:differs_from_other_contents", call(CF.CorrFunc.__eq__, x, y) is False)
    # different member sets never compare equal, in both directions
    if sum(present.values()) >= 3:
        drop = [k for k in ("rr", "rd", "dr") if present[k]][0]
        z = CF.CorrFunc(*(M(k + "1") if (present[k] and k != drop) else None for k in ("dd", "dr", "rd", "rr")))
        ctx.check("C17/CorrFunc.__eq__/post:different_member_sets_unequal_both_ways",
                  call(CF.CorrFunc.__eq__, x, z) is False and call(CF.CorrFunc.__eq__, z, x) is False)
    for what, fn in (("bins", CF.CorrFunc._make_bin_slice), ("patches", CF.CorrFunc._make_patch_slice)):
        del log[:]
        item = slice(ctx.fresh_int("lo"), ctx.fresh_int("hi"))
        r = expect_no_exception(ctx, call(fn, x, item), f"C17/CorrFunc._make_{what}_slice")
        ctx.check(f"C17/CorrFunc._make_{what}_slice/post:member_wise_with_the_same_selector",
                  sorted(e[1] for e in log if e[0] == what) == sorted(k + "1" for k in kinds) and all(e[2] is item for e in log if e[0] == what)
                  and all(getattr(r, k) is None for k in present if not present[k]))
    ctx.check("C17/CorrFunc.is_compatible/post:other_type", call(CF.CorrFunc.is_compatible, x, 1.0) is False)
    r = call(CF.CorrFunc.is_compatible, x, 1.0, require=True)
    ctx.check("C17/CorrFunc.is_compatible/post_exc:other_type_required", isinstance(r, Raised) and isinstance(r.exc, TypeError))


@unit(P, "estimator_scale_invariance", kind="lemma")
def u_scale_inv(ctx):
    """sample(c*x) == sample(x) for c != 0 at the estimator layer: both estimators are ratios, homogeneous of
    degree 0 in the (normalised) pair counts"""
    from .C04 import estimator_spec
    c = ctx.fresh_real("c")
    v = {k: ctx.fresh_real(k).t for k in ("dd", "dr", "rd", "rr")}
    ctx.assume(z3.And(c.t != 0, v["dr"] != 0, v["rd"] != 0, v["rr"] != 0), "pre:non-zero scalar and denominators")
    ctx.canary()
    for dr in (False, True):
        for rd in (False, True):
            for rr in (False, True):
                if not (dr or rd or rr) or (rr and not dr):
                    continue
                a = estimator_spec(v["dd"], v["dr"] if dr else None, v["rd"] if rd else None, v["rr"] if rr else None)
                b = estimator_spec(c.t * v["dd"], c.t * v["dr"] if dr else None, c.t * v["rd"] if rd else None,
                                   c.t * v["rr"] if rr else None)
                ctx.check(f"C17/estimator_scale_invariance[dr={dr},rd={rd},rr={rr}]", a == b, kind="lemma")


# ---------------------------------------------------------------------------------------------------------
# replay on the real code: a small battery of the same laws, evaluated concretely
# ---------------------------------------------------------------------------------------------------------

def _battery():
    """yields (law name, ok, detail) for the real containers on generic small inputs"""
    import numpy as np
    from yaw.binning import Binning
    from yaw.correlation import paircounts as PCr
    from yaw.correlation import corrdata as CDr
    from yaw.correlation.corrfunc import CorrFunc
    rng = np.random.default_rng(7)
    nb, N, S = 3, 4, 5
    e = np.array([0.1, 0.2, 0.45, 0.9])

    def attempt(fn):
        try:
            return fn(), None
        except Exception as ex:  # noqa: BLE001
            return None, ex
    for closed in ("left", "right"):
        b = Binning(e, closed=closed)
        other = Binning(e, closed="left" if closed == "right" else "right")
        A, B = rng.uniform(1, 9, (nb, N, N)), rng.uniform(1, 9, (nb, N, N))
        x, y = PCr.PatchedCounts(b, A, auto=False), PCr.PatchedCounts(b, B, auto=False)
        r, ex = attempt(lambda: x + y)
        yield "PatchedCounts.__add__", ex is None and np.array_equal(r.counts, A + B), repr(ex)
        r, ex = attempt(lambda: x + PCr.PatchedCounts(other, B, auto=False))
        yield "PatchedCounts.__add__ closed side", isinstance(ex, ValueError), repr(ex or "no error for different closed side")
        r, ex = attempt(lambda: x + PCr.PatchedCounts(b, B[:, :3, :3], auto=False))
        yield "PatchedCounts.__add__ patches", isinstance(ex, ValueError), repr(ex or "no error for different patches")
        r, ex = attempt(lambda: x * 2.5)
        yield "PatchedCounts.__mul__", ex is None and np.array_equal(r.counts, A * 2.5), repr(ex)
        yield "PatchedCounts.__eq__ reflexive", bool(x == x), ""
        yield "PatchedCounts.__eq__ closed", not (x == PCr.PatchedCounts(other, A, auto=False)), "equal despite different closed side"
        w1, w2 = rng.uniform(1, 9, (nb, N)), rng.uniform(1, 9, (nb, N))
        sw = PCr.PatchedSumWeights(b, w1, w2, auto=False)
        nc, nc2 = PCr.NormalisedCounts(x, sw), PCr.NormalisedCounts(y, sw)
        r, ex = attempt(lambda: nc * 3.0)
        yield "NormalisedCounts.__mul__", ex is None and np.array_equal(r.counts.counts, A * 3.0) and r.sum_weights == sw, repr(ex)
        r, ex = attempt(lambda: nc + nc2)
        yield "NormalisedCounts.__add__", ex is None and np.array_equal(r.counts.counts, A + B), repr(ex)
        for item, lo, ln in [(0, 0, 1), (-1, N - 1, 1), (2, 2, 1), (slice(1, 3), 1, 2), (slice(None, 2), 0, 2), (slice(-2, None), N - 2, 2)]:
            r, ex = attempt(lambda: x.patches[item])
            yield f"PatchedCounts.patches[{item}]", ex is None and np.array_equal(r.counts, A[:, lo:lo + ln, lo:lo + ln]), repr(ex)
            r, ex = attempt(lambda: sw.patches[item])
            yield f"PatchedSumWeights.patches[{item}]", ex is None and np.array_equal(r.sum_weights1, w1[:, lo:lo + ln]) and \
                np.array_equal(r.sum_weights2, w2[:, lo:lo + ln]), repr(ex)
        for item, lo, ln in [(0, 0, 1), (-1, nb - 1, 1), (slice(1, 3), 1, 2), (slice(0, 2), 0, 2)]:
            r, ex = attempt(lambda: x.bins[item])
            yield f"PatchedCounts.bins[{item}]", ex is None and np.array_equal(r.counts, A[lo:lo + ln]) and \
                np.array_equal(r.binning.edges, e[lo:lo + ln + 1]) and r.binning.closed == b.closed, repr(ex)
            r, ex = attempt(lambda: b[item])
            yield f"Binning[{item}]", ex is None and np.array_equal(r.edges, e[lo:lo + ln + 1]), repr(ex)
        r, ex = attempt(lambda: [p.counts[:, 0, 0].tolist() for p in x.patches])
        yield "iterate patches", ex is None and r == [A[:, i, i].tolist() for i in range(N)], repr(ex)
        r, ex = attempt(lambda: ([p.counts.shape for p in x.bins], [p.counts.shape for p in x.bins]))
        yield "iterate bins twice", ex is None and r[0] == r[1] == [(1, N, N)] * nb, repr(ex or r)
        ix = x.bins
        r, ex = attempt(lambda: (len(list(ix)), len(list(ix))))
        yield "iterate the same indexer twice", ex is None and r == (nb, nb), repr(ex or r)
        d, s = rng.uniform(1, 9, nb), rng.uniform(1, 9, (S, nb))
        sd, sd2 = CDr.SampledData(b, d, s), CDr.SampledData(b, d * 2, s * 3)
        r, ex = attempt(lambda: sd + sd2)
        yield "SampledData.__add__", ex is None and np.allclose(r.data, d * 3) and np.allclose(r.samples, s * 4) and r.binning == b, repr(ex)
        r, ex = attempt(lambda: sd2 - sd)
        yield "SampledData.__sub__", ex is None and np.allclose(r.data, d) and np.allclose(r.samples, s * 2), repr(ex)
        r, ex = attempt(lambda: sd.bins[1:3])
        yield "SampledData.bins[1:3]", ex is None and np.array_equal(r.data, d[1:3]) and np.array_equal(r.samples, s[:, 1:3]), repr(ex)
        r, ex = attempt(lambda: sd.bins[-1])
        yield "SampledData.bins[-1]", ex is None and r.data.shape == (1,) and r.samples.shape == (S, 1) and r.data[0] == d[-1], repr(ex)
        lhs, ex1 = attempt(lambda: x.bins[1:3].sample_patch_sum())
        rhs, ex2 = attempt(lambda: x.sample_patch_sum().bins[1:3])
        yield "commutation bins/sample_patch_sum", ex1 is None and ex2 is None and np.allclose(lhs.data, rhs.data) and \
            np.allclose(lhs.samples, rhs.samples), repr(ex1 or ex2)
        cf = CorrFunc(nc, dr=nc2)
        cf3 = CorrFunc(nc, dr=nc2, rr=nc)
        yield "CorrFunc.__eq__ member sets", (not (cf == cf3)) and (not (cf3 == cf)) and bool(cf == cf), "different member sets compare equal"
        r, ex = attempt(lambda: (cf * 2.0).sample())
        yield "CorrFunc.__mul__ keeps estimate", ex is None and np.allclose(r.data, cf.sample().data) and np.allclose(r.samples, cf.sample().samples), repr(ex)
        r, ex = attempt(lambda: cf + cf)
        yield "CorrFunc.__add__", ex is None and np.array_equal(r.dd.counts.counts, 2 * A) and r.rr is None, repr(ex)


def replay_witness(unit_name, case, ob):
    fails = [(n, d) for n, ok, d in _battery() if not ok]
    return {"reproduced": bool(fails), "failed_laws": [f"{n}: {d}" for n, d in fails][:8],
            "note": "battery of the container laws on the real classes (generic 3 bins x 4 patches x 5 samples inputs)"}


def _step_battery():
    """bounded: every slice(start, stop, step) with start/stop in {None, -n-1..n+1} and step in {None, 1, 2, 3, -1, -2, -3} on the real
    containers (3 bins x 4 patches); the reference is numpy's own selection ``arange(n)[s]``.  A non-empty patch selection must
    yield exactly the sub-arrays of the selected patches (any step, any direction); a bin selection must either be refused with
    IndexError/ValueError (a Binning cannot represent non-contiguous or reversed bins) or yield the sub-arrays of the selected
    bins with a binning of that many bins.  Empty selections may be refused or give empty containers."""
    import numpy as np
    from yaw.binning import Binning
    from yaw.correlation import paircounts as PCr
    rng = np.random.default_rng(11)
    nb, N = 3, 4
    b = Binning(np.array([0.1, 0.2, 0.45, 0.9]), closed="left")
    A = rng.uniform(1, 9, (nb, N, N))
    w1, w2 = rng.uniform(1, 9, (nb, N)), rng.uniform(1, 9, (nb, N))
    x = PCr.PatchedCounts(b, A, auto=False)
    sw = PCr.PatchedSumWeights(b, w1, w2, auto=False)
    nc = PCr.NormalisedCounts(x, sw)

    def views(obj):
        if isinstance(obj, PCr.NormalisedCounts):
            return obj.counts.counts, obj.sum_weights.sum_weights1, obj.sum_weights.sum_weights2
        if isinstance(obj, PCr.PatchedCounts):
            return (obj.counts,)
        return obj.sum_weights1, obj.sum_weights2

    def expect(obj, axis, idx):
        out = []
        for arr in views(obj):
            if axis == "bin":
                out.append(arr[idx])
            elif arr.ndim == 3:
                out.append(arr[:, idx][:, :, idx])
            else:
                out.append(arr[:, idx])
        return out
    for axis, n in (("patch", N), ("bin", nb)):
        ends = [None] + list(range(-n - 1, n + 2))
        for step in (None, 1, 2, 3, -1, -2, -3):
            for start in ends:
                for stop in ends:
                    s = slice(start, stop, step)
                    idx = np.arange(n)[s]
                    for cname, obj in (("PatchedCounts", x), ("PatchedSumWeights", sw), ("NormalisedCounts", nc)):
                        try:
                            r = (obj.patches if axis == "patch" else obj.bins)[s]
                        except (IndexError, ValueError) as ex:
                            ok = len(idx) == 0 or (axis == "bin" and step not in (None, 1))
                            yield f"{cname}.{axis}[{start}:{stop}:{step}]", ok, f"refused a valid selection of {len(idx)}: {ex!r}"
                            continue
                        except Exception as ex:  # noqa: BLE001
                            yield f"{cname}.{axis}[{start}:{stop}:{step}]", False, f"unexpected {ex!r}"
                            continue
                        got, want = views(r), expect(obj, axis, idx)
                        ok = all(g.shape == w.shape and np.array_equal(g, w) for g, w in zip(got, want))
                        if ok and axis == "bin":
                            # edges are compared for contiguous ascending selections only: for a stepped selection the real
                            # Binning.__getitem__ keeps the left edges and the last right edge (see DESIGN 14.7), and the statement
                            # speaks of the sub-arrays
                            ok = r.num_bins == len(idx) and (len(idx) == 0 or step not in (None, 1) or (
                                np.array_equal(r.binning.left, b.left[idx]) and np.array_equal(r.binning.right, b.right[idx])))
                        yield (f"{cname}.{axis}[{start}:{stop}:{step}]", ok,
                               f"selected {[g.shape for g in got]}, numpy selects {[w.shape for w in want]} (indices {idx.tolist()})")


def bounded(opts):
    import time
    t0 = time.time()
    res = list(_step_battery())
    fails = [(n, d) for n, ok, d in res if not ok]
    return dict(kind="bounded", bound="all slice(start, stop, step), start/stop in {None, -n-1..n+1}, step in {None, ±1, ±2, ±3}, on "
                "PatchedCounts / PatchedSumWeights / NormalisedCounts with 3 bins x 4 patches, patch and bin axis; reference numpy arange(n)[s]",
                evaluations=len(res), distinct_nontrivial=len(res),
                violations=[dict(id=f"bounded:stepped_slices:{n}", detail=d) for n, d in fails[:6]],
                samples=[n for n, _, _ in res[:3]], wall_s=round(time.time() - t0, 2),
                note="real library; stepped slices are outside the symbolic array model (arrays.py: slice with step is Unsupported); "
                     "labelled bounded, not counted as proved")
