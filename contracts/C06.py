"""C06 - MPI runs: what per-function contracts can decide (and what they cannot).

The property quantifies over interleavings and asks for termination on all ranks - concurrency, where contracts are weak.
Decided here is *per-rank protocol conformance* against an explicit ghost model of the peers (rely/guarantee):

  every worker rank is a state machine  IDLE (blocked in recv(source=0, tag=1)) -> BUSY (computing, then blocked in
  send((rank, result), dest=0, tag=2) until the root receives it) -> IDLE ... -> DONE (got EndOfQueue).
  _mpi_worker_task is proved to implement this machine; _mpi_root_task is proved against it:
    * a send to worker r happens only while r is IDLE            (safe also when sends complete synchronously/rendezvous)
    * a wildcard receive is posted only while some worker is BUSY (it will be matched, whichever BUSY worker wins)
    * every item of the iterable is sent exactly once, every result received is yielded exactly once,
      every worker rank gets EndOfQueue exactly once and nothing after it, and on return all workers are DONE
  for every world size, every set of active ranks and every choice of the matching worker at each wildcard receive.
  Collectives: a function is executed once as root and once as worker and the sequences of collectives must be equal.
Not decided: progress/fairness, real MPI.  (F22 - the writer stopping at the reader's end marker while messages of other senders
were pending - was found here, demonstrated in the simulation and repaired; the writer unit now proves the per-sender argument.)
A bounded stand-in runs the real functions on simulated ranks (threads, rendezvous channels) for small worlds.
"""
from __future__ import annotations

import z3

from pyvc import core, shadow, sigma
from pyvc.core import SNum, SBool, Ctx, EndPath, Unsupported, to_term, tob
from pyvc.arrays import SArr, bv, forall
from pyvc.unit import find_site
from .common import And, Or, Implies, Not, ForAll, mod, unit, call, Raised, expect_no_exception, fail, use_loops, LoopSpec, Patches

P = "C06"
EXPLANATION = (
    "Per-rank protocol conformance of the MPI dispatcher and of the collective call sequences, proved on the current source "
    "against a ghost state machine of the peer ranks for every world size, active-rank set and wildcard matching choice: the "
    "root sends only to idle workers (safe under synchronous send completion), receives only while a worker is busy, dispatches "
    "every task once, yields every result once and shuts every worker down exactly once; the worker loop implements the peer "
    "machine; root and worker executions issue the same collectives. Global progress and real MPI are not decided; a bounded "
    "simulation of small worlds with rendezvous channels runs the real functions.")
TRUSTED = ["MPI point-to-point semantics: a matching send/recv pair completes; messages between one pair of ranks on one tag do not overtake",
           "the job function terminates", "every rank calls iter_unordered (collective entry)"]
NOT_DECIDED = ["global deadlock freedom / progress beyond the rely-guarantee argument",
               "MPI write_patches role dispatch, WorkerManager/Split, the root-only reads followed by bcast in load_patches / get_probe / from_file (bounded simulation only)",
               "real MPI (mpi4py is not installed): point-to-point semantics are a model", "result equality with the single-process run beyond the dispatcher (C05 covers the arrival order)"]
ASSUMPTIONS = []

IDLE, BUSY, DONE = 0, 1, 2


class Peers:
    """ghost model of the worker ranks as seen from the root"""

    def __init__(self, ctx, size, name):
        self.ctx, self.size, self.name = ctx, size, name
        self.st = lambda r: z3.IntVal(IDLE)          # every worker starts in recv(source=0, tag=1)
        self.task_of = lambda r: z3.IntVal(-1)
        self.nbusy = SNum(z3.IntVal(0))
        self.sent = SNum(z3.IntVal(0))               # tasks dispatched so far == position of the iterator
        self.yielded = SNum(z3.IntVal(0))
        self.received = SNum(z3.IntVal(0))
        self.pending = None                          # result received but not yet yielded

    def vc_havoc(self, c, name):
        I = z3.IntSort()
        f, g = c.fresh_fn("peer_state", I, I), c.fresh_fn("peer_task", I, I)
        self.st, self.task_of = (lambda r: f(r)), (lambda r: g(r))
        self.nbusy, self.sent = c.fresh_int("nbusy", lo=0), c.fresh_int("sent", lo=0)
        self.yielded, self.received = c.fresh_int("yielded", lo=0), c.fresh_int("received", lo=0)
        self.pending = None

    def vc_snapshot(self):
        p = Peers(self.ctx, self.size, self.name)
        p.st, p.task_of, p.nbusy, p.sent, p.yielded, p.received, p.pending = self.st, self.task_of, self.nbusy, self.sent, self.yielded, self.received, self.pending
        return p

    # -- number of busy workers as a sum over the ranks 1..size-1 (index q = rank - 1)
    def busy_ind(self, st=None):
        st = st or self.st
        return lambda q: z3.If(st(q + 1) == BUSY, z3.RealVal(1), z3.RealVal(0))

    def count(self):
        return SNum(sigma.total(self.busy_ind(), self.size.t - 1))

    def _point_update(self, old, new, d):
        """lemma instance: the two state functions differ only at rank d, so the counts differ by the indicators at d"""
        sigma.point_update(self.ctx, self.busy_ind(old), self.busy_ind(new), self.size.t - 1, d - 1, name="states differ only at the addressed rank")

    def not_busy_if_count_zero(self):
        """lemma instance: all indicators are >= 0, so every indicator is bounded by the count (a zero count: no rank is busy)"""
        sigma.member_le_sum(self.ctx, self.busy_ind(), self.size.t - 1, name="indicators are not negative")

    # -- the communicator the root sees
    def send(self, obj, dest=None, tag=None):
        PAR = mod("yaw.utils.parallel")
        ctx, n = self.ctx, self.name
        d = to_term(dest)
        ctx.check(f"{n}/pre@send:tag_1_to_a_worker_rank", And(tag == 1, SBool(z3.And(d >= 1, d < self.size.t))))
        ctx.check(f"{n}/pre@send:the_worker_is_waiting_for_a_message", SBool(self.st(d) == IDLE),
                  detail="a (synchronous) send to a worker that is itself blocked sending its result, or that was already shut down, never completes")
        old = self.st
        if obj is PAR.EndOfQueue:
            self.st = lambda r: z3.If(r == d, z3.IntVal(DONE), old(r))
            self._point_update(old, self.st, d)
            return
        ctx.check(f"{n}/pre@send:the_next_item_of_the_iterable", isinstance(obj, tuple) and obj[0] == "TASK" and bool(obj[1] == self.sent),
                  detail="every item is dispatched exactly once, in order")
        k = to_term(obj[1])
        oldt = self.task_of
        self.st = lambda r: z3.If(r == d, z3.IntVal(BUSY), old(r))
        self.task_of = lambda r: z3.If(r == d, k, oldt(r))
        self._point_update(old, self.st, d)
        self.sent = self.sent + 1
        self.nbusy = self.nbusy + 1

    def recv(self, source=None, tag=None):
        ctx, n = self.ctx, self.name
        ctx.check(f"{n}/pre@recv:wildcard_receive_on_tag_2", source == "ANY_SOURCE" and tag == 2)
        ctx.check(f"{n}/pre@recv:some_worker_is_busy", self.nbusy > 0, detail="a receive posted while no worker owes a result blocks forever")
        ctx.check(f"{n}/pre@recv:previous_result_was_yielded", self.pending is None)
        r = ctx.fresh_int("matched_rank", lo=1)
        ctx.assume(z3.And(r.t < self.size.t, self.st(r.t) == BUSY), "model:the wildcard receive matches an arbitrary busy worker")
        old = self.st
        k = self.task_of(r.t)
        self.st = lambda q: z3.If(q == r.t, z3.IntVal(IDLE), old(q))
        self._point_update(old, self.st, r.t)
        self.nbusy = self.nbusy - 1
        self.received = self.received + 1
        self.pending = ("RESULT", SNum(k))
        return (r, self.pending)

    def on_yield(self, value):
        ctx, n = self.ctx, self.name
        ctx.check(f"{n}/pre@yield:exactly_the_result_just_received", self.pending is not None and value is self.pending)
        self.pending = None
        self.yielded = self.yielded + 1


class TaskIter:
    """iterator over L tasks; item k is ("TASK", k); the position is the ghost peers.sent"""

    def __init__(self, ctx, peers, L):
        self.ctx, self.peers, self.L = ctx, peers, L

    def vc_next(self, *default):
        if self.ctx.branch((self.peers.sent < self.L).t):
            return ("TASK", self.peers.sent)
        raise StopIteration

    def __next__(self):
        return self.vc_next()


def root_fixture(ctx, name):
    size = ctx.fresh_int("world_size", lo=2, size=True)
    L = ctx.fresh_int("num_tasks", lo=0, size=True)
    peers = Peers(ctx, size, name)
    inranks = ctx.fresh_fn("rank_is_active", z3.IntSort(), z3.BoolSort())
    ctx.assume(inranks(z3.IntVal(0)), "pre:the root is always an active rank")
    from pyvc.containers import SymSet
    ranks = SymSet(lambda k: inranks(k))
    return size, L, peers, inranks, ranks


@unit(P, "sigma_schemas", kind="lemma")
def u_sigma(ctx):
    """induction proofs of the sum lemmas used for counting the busy workers (point update, remove one, non-negative, zero)"""
    ctx.canary()
    sigma.prove_schemas(ctx)


@unit(P, "_mpi_root_task", fuc=["yaw.utils.parallel:_mpi_root_task"], trusted=["MPI point-to-point model"])
def u_root(ctx):
    """dispatcher against the peer model: sends only to idle workers, receives only while a worker is busy, every task sent
    once, every received result yielded once, every worker shut down exactly once, all workers DONE on return - for every world
    size, active-rank set, number of tasks and every matching choice of the wildcard receive"""
    PAR = mod("yaw.utils.parallel")
    name = "C06/_mpi_root_task"
    size, L, peers, inranks, ranks = root_fixture(ctx, name)
    fn = shadow.reload_function("yaw.utils.parallel:_mpi_root_task")
    q = bv("q")
    rng = lambda q_: z3.And(q_ >= 1, q_ < size.t)  # noqa: E731

    def done_reason(q_):
        # a worker is shut down either because it is not an active rank or because the iterable is exhausted
        return z3.Implies(peers.st(q_) == DONE, z3.Or(z3.Not(inranks(q_)), peers.sent.t == L.t))

    def inv1(L_):
        j = to_term(L_.j)
        return {"handled_ranks_are_busy_or_done": SBool(z3.ForAll([q], z3.Implies(z3.And(rng(q), q < 1 + j), z3.And(z3.Or(peers.st(q) == BUSY, peers.st(q) == DONE), done_reason(q))))),
                "other_ranks_still_idle": SBool(z3.ForAll([q], z3.Implies(z3.And(rng(q), q >= 1 + j), peers.st(q) == IDLE))),
                "active_workers_counts_the_busy_ranks": And(L_.active_workers == peers.nbusy, peers.nbusy == peers.count()),
                "one_task_per_busy_rank": And(peers.sent == peers.nbusy, peers.yielded == 0, peers.received == 0, peers.sent <= L, peers.pending is None)}

    def inv2(L_):
        return {"every_rank_busy_or_done": SBool(z3.ForAll([q], z3.Implies(rng(q), z3.And(z3.Or(peers.st(q) == BUSY, peers.st(q) == DONE), done_reason(q))))),
                "active_workers_counts_the_busy_ranks": And(L_.active_workers == peers.nbusy, peers.nbusy == peers.count(), peers.nbusy >= 0),
                "results_and_tasks_balance": And(peers.yielded + peers.nbusy == peers.sent, peers.received == peers.yielded, peers.sent <= L, peers.pending is None)}
    s1 = find_site("yaw.utils.parallel:_mpi_root_task", "range(1, get_size())")
    s2 = find_site("yaw.utils.parallel:_mpi_root_task", "active_workers")
    it = TaskIter(ctx, peers, L)
    sigma.zero(ctx, peers.busy_ind(), size.t - 1, name="no worker is busy initially")
    import types
    ctx.ghost["emit_hook"] = peers.on_yield
    fresh_rank = {"rank": lambda L_: L_.ctx.fresh_int("rank")}
    with Patches() as pt, use_loops({s1: LoopSpec(inv=inv1, fresh=fresh_rank), s2: LoopSpec(inv=inv2)}):
        pt.set(PAR, "get_size", lambda *a, **k: size)
        pt.set(PAR, "MPI", types.SimpleNamespace(ANY_SOURCE="ANY_SOURCE"))
        ctx.ghost.setdefault("loop_ghosts", {})[s1] = [peers]
        ctx.ghost.setdefault("loop_ghosts", {})[s2] = [peers]
        ctx.canary()
        expect_no_exception(ctx, call(fn, it, ranks, comm=peers), name)
    r = ctx.fresh_int("r", lo=1)
    ctx.assume(r.t < size.t, "post:arbitrary worker rank")
    peers.not_busy_if_count_zero()
    ctx.check(f"{name}/post:every_worker_was_shut_down", SBool(peers.st(r.t) == DONE), detail="a worker that never receives EndOfQueue blocks in recv forever")
    ctx.check(f"{name}/post:no_result_outstanding", And(peers.nbusy == 0, peers.pending is None))
    ctx.check(f"{name}/post:one_result_yielded_per_dispatched_task", And(peers.yielded == peers.sent, peers.received == peers.sent))
    ctx.check(f"{name}/post:every_task_was_dispatched_if_a_worker_rank_is_active", SBool(z3.Implies(z3.Exists([q], z3.And(rng(q), inranks(q))), peers.sent.t == L.t)))
    ctx.check(f"{name}/post:consumed_exactly_the_dispatched_items", peers.sent <= L,
              detail="what is not dispatched stays in the iterator (processed by the caller on the root)")


class RootPeer:
    """ghost model of the root as seen from a worker: a queue of K tasks then the sentinel on tag 1; collects results on tag 2"""

    def __init__(self, ctx, name):
        self.ctx, self.name = ctx, name
        self.K = ctx.fresh_int("tasks_for_this_worker", lo=0, size=True)
        self.got = SNum(z3.IntVal(0))
        self.answered = SNum(z3.IntVal(0))
        self.rank = ctx.fresh_int("my_rank", lo=1)

    def vc_havoc(self, c, name):
        self.got, self.answered = c.fresh_int("got", lo=0), c.fresh_int("answered", lo=0)

    def vc_snapshot(self):
        p = RootPeer.__new__(RootPeer)
        p.__dict__.update(self.__dict__)
        return p

    def Get_rank(self):
        return self.rank

    def recv(self, source=None, tag=None):
        PAR = mod("yaw.utils.parallel")
        ctx, n = self.ctx, self.name
        ctx.check(f"{n}/pre@recv:from_the_root_on_tag_1", source == 0 and tag == 1)
        ctx.check(f"{n}/pre@recv:previous_task_was_answered(the_root_sends_the_next_message_only_then)", self.got == self.answered)
        ctx.check(f"{n}/pre@recv:not_after_the_sentinel", self.got <= self.K)
        k = self.got
        self.got = self.got + 1
        if self.ctx.branch((k == self.K).t):
            return PAR.EndOfQueue
        return ("TASK", k)

    def send(self, obj, dest=None, tag=None):
        ctx, n = self.ctx, self.name
        ctx.check(f"{n}/pre@send:to_the_root_on_tag_2", dest == 0 and tag == 2)
        ok = isinstance(obj, tuple) and len(obj) == 2 and obj[0] is self.rank and isinstance(obj[1], tuple) and obj[1][0] == "RESULT" and bool(obj[1][1] == self.answered)
        ctx.check(f"{n}/pre@send:(own_rank, result_of_the_task_just_received)", ok)
        self.answered = self.answered + 1


@unit(P, "_mpi_worker_task", fuc=["yaw.utils.parallel:_mpi_worker_task"], trusted=["MPI point-to-point model"])
def u_worker(ctx):
    """the worker implements the peer machine the root relies on: receive from the root on tag 1, stop at the sentinel, otherwise
    apply the job to exactly that task and send (own rank, result) on tag 2 before receiving again"""
    PAR = mod("yaw.utils.parallel")
    name = "C06/_mpi_worker_task"
    root = RootPeer(ctx, name)
    calls = []

    def job(arg):
        calls.append(arg)
        return ("RESULT", arg[1])
    site = find_site("yaw.utils.parallel:_mpi_worker_task", "comm.recv")
    spec = LoopSpec(inv=lambda L_: And(root.got == root.answered + 1, root.answered < root.K) if False else And(root.got == root.answered, root.got <= root.K),
                    fresh={"arg": lambda L_: ("TASK", "?"), "result": lambda L_: ("RESULT", "?")})
    with Patches() as pt, use_loops({site: spec}):
        ctx.ghost.setdefault("loop_ghosts", {})[site] = [root]
        ctx.canary()
        expect_no_exception(ctx, call(PAR._mpi_worker_task, job, comm=root), name)
    ctx.check(f"{name}/post:stopped_by_the_sentinel_after_answering_every_task", And(root.got == root.K + 1, root.answered == root.K))


class CollectiveLog:
    """communicator that records collectives; point-to-point traffic is delegated to a per-role stub"""

    def __init__(self, rank, size, log):
        self.rank, self.size, self.log = rank, size, log

    def Get_rank(self):
        return self.rank

    def Get_size(self):
        return self.size

    def Barrier(self):
        self.log.append("Barrier")

    def bcast(self, value, root=0):
        self.log.append(("bcast", root))
        return value

    def Bcast(self, value, root=0):
        self.log.append(("Bcast", root))
        return value


@unit(P, "_mpi_iter_unordered", fuc=["yaw.utils.parallel:_mpi_iter_unordered"], cases=[dict(role=r) for r in ("root", "worker")])
def u_iter(ctx, role):
    """the root runs the dispatcher over iter(iterable) with the given ranks, yields its results and then applies the job itself
    to every item the dispatcher left in the iterator (no active worker rank), so that every task is executed exactly once;
    a worker runs the worker loop with the job bound to the given arguments; both end with the same collective (one Barrier)"""
    PAR = mod("yaw.utils.parallel")
    fn = shadow.reload_function("yaw.utils.parallel:_mpi_iter_unordered")
    log, seen, yielded = [], {}, []
    comm = CollectiveLog(0 if role == "root" else 3, 5, log)
    name = "C06/_mpi_iter_unordered"

    def func(a, b, x, k=None):
        return ("JOB", a, b, x, k)

    def root_task(iterable, ranks, comm=None):
        first = next(iterable)                   # the dispatcher model: dispatches a prefix, leaves the rest in the iterator
        seen["root"] = (first, ranks, comm)
        return iter([("R", first)])
    with Patches() as pt:
        pt.set(PAR, "on_root", lambda *a, **k: role == "root")
        pt.set(PAR, "on_worker", lambda *a, **k: role != "root")
        pt.set(PAR, "_mpi_root_task", root_task)
        pt.set(PAR, "_mpi_worker_task", lambda func, comm=None: seen.update(worker=(func, comm)))
        ctx.ghost["emit_from_hook"] = lambda it: yielded.extend(list(it))
        ctx.canary()
        expect_no_exception(ctx, call(fn, func, [(1, 2), (3, 4), (5, 6)], func_args=("x",), func_kwargs={"k": 1}, unpack=True, ranks={0, 1}, comm=comm), name)
    ctx.check(f"{name}/post:collectives(one_Barrier_at_the_end_on_every_rank)", log == ["Barrier"])
    if role == "root":
        ctx.check(f"{name}/post:root_dispatches_to_the_given_ranks_and_yields_the_results", seen.get("root") == ((1, 2), {0, 1}, comm) and yielded[:1] == [("R", (1, 2))]
                  and "worker" not in seen)
        ctx.check(f"{name}/post:items_left_by_the_dispatcher_are_processed_on_the_root_exactly_once", yielded[1:] == [("JOB", 3, 4, "x", 1), ("JOB", 5, 6, "x", 1)],
                  detail=f"yielded {yielded}")
    else:
        f = seen.get("worker", (None, None))[0]
        ctx.check(f"{name}/post:worker_runs_the_job_bound_to_the_arguments_and_yields_nothing",
                  "root" not in seen and isinstance(f, PAR.ParallelJob) and f.func is func and f.func_args == ("x",) and f.func_kwargs == {"k": 1} and f.unpack is True
                  and seen["worker"][1] is comm and yielded == [])


@unit(P, "broadcast.collective_sequences", fuc=["yaw.utils.parallel:bcast_array", "yaw.utils.parallel:bcast_instance", "yaw.utils.parallel:get_bcast_method",
                                               "yaw.utils.parallel:new_uninitialised"])
def u_bcast(ctx):
    """bcast_instance / bcast_array / get_bcast_method issue the same sequence of collectives on the root and on a worker (a
    rank-dependent collective is a deadlock), and the worker ends up with the root's structure and values"""
    PAR = mod("yaw.utils.parallel")
    import functools
    import numpy as np
    name = "C06/broadcast"

    class Inner(PAR.Broadcastable):
        __slots__ = ("arr", "tag")

    class Outer(PAR.Broadcastable):
        __slots__ = ("inner", "n", "data")
    wire = []          # what the root put on the wire, in order (the MPI payload model)

    class Comm(CollectiveLog):
        def __init__(self, role, log):
            super().__init__(0 if role == "root" else 2, 4, log)
            self.role = role

        def _deliver(self, value):
            if self.role == "root":
                wire.append(value)
                return value
            v = wire.pop(0)
            # communicator-bound callables arrive bound to the receiving rank's communicator (COMM_WORLD unpickles to itself)
            if isinstance(v, functools.partial) and "comm" in v.keywords:
                return functools.partial(v.func, comm=self)
            if getattr(v, "__self__", None).__class__ is Comm:
                return getattr(self, v.__name__)
            return v

        def bcast(self, value, root=0):
            self.log.append(("bcast", root))
            return self._deliver(value)

        def Bcast(self, value, root=0):
            self.log.append(("Bcast", root, tuple(value.shape)))
            if self.role == "root":
                wire.append(value)
                return value
            src = wire.pop(0)
            if isinstance(value, SArr):        # the receive buffer is an array proxy while a path is active
                value._elem = SArr.from_concrete(np.asarray(src))._elem
            else:
                value[...] = src
            return value
    results = {}
    for role in ("root", "worker"):
        log = []
        inst = None
        if role == "root":
            inst = Outer()
            inst.inner = Inner()
            inst.inner.arr, inst.inner.tag = np.arange(6.0).reshape(2, 3), "t"
            inst.n, inst.data = 3, np.ones(4)
        comm = Comm(role, log)
        with Patches() as pt:
            pt.set(PAR, "use_mpi", lambda: True)
            pt.set(PAR, "on_root", lambda *a, **k: role == "root")
            pt.set(PAR, "on_worker", lambda *a, **k: role != "root")
            ctx.canary()
            res = expect_no_exception(ctx, call(PAR.bcast_instance, inst, comm=comm), f"{name}[{role}]")
        results[role] = (log, res)
    ctx.check(f"{name}/post:same_collectives_on_root_and_worker", results["root"][0] == results["worker"][0] and len(results["root"][0]) >= 8,
              detail=f"root {results['root'][0]} worker {results['worker'][0]}")
    ctx.check(f"{name}/post:nothing_left_on_the_wire", wire == [])
    w = results["worker"][1]
    ctx.check(f"{name}/post:worker_has_the_structure_and_values_of_the_root",
              type(w).__name__ == "Outer" and type(w.inner).__name__ == "Inner" and w.n == 3 and w.inner.tag == "t"
              and _same(w.inner.arr, np.arange(6.0).reshape(2, 3)) and _same(w.data, np.ones(4)))


def _same(a, ref):
    import numpy as np
    if isinstance(a, SArr):
        from pyvc import solve
        vals = [[core.const_value(a._elem(z3.IntVal(i), z3.IntVal(j))) for j in range(ref.shape[1])] for i in range(ref.shape[0])] if ref.ndim == 2 else \
               [core.const_value(a._elem(z3.IntVal(i))) for i in range(ref.shape[0])]
        return np.array_equal(np.array(vals, dtype=float), ref)
    return np.array_equal(a, ref)


# ---------------------------------------------------------------------------------------------------------
# bounded stand-in / replay: the real functions on simulated ranks
# ---------------------------------------------------------------------------------------------------------

_BAT = {}


def _battery(quick):
    if quick not in _BAT:
        import warnings
        from bounded import c06_sim, c06_pipeline
        with warnings.catch_warnings():
            warnings.simplefilter("ignore")
            _BAT[quick] = list(c06_sim.battery(quick)) + list(c06_pipeline.battery(quick))
    return _BAT[quick]


def replay_witness(unit_name, case, ob):
    fails = [(n, d) for n, ok, d in _battery(True) if not ok]
    return {"reproduced": bool(fails), "failed_worlds": [f"{n}: {d}" for n, d in fails][:6],
            "note": "the real _mpi_iter_unordered/_mpi_root_task/_mpi_worker_task on simulated ranks (threads) with eager and with synchronous (rendezvous) sends"}


def bounded(opts):
    import time
    t0 = time.time()
    quick = opts.get("tier", "quick") == "quick"
    res = _battery(quick)
    fails = [(n, d) for n, ok, d in res if not ok]
    return dict(kind="bounded", bound="simulated MPI (one thread per rank, per-pair FIFO channels, eager or synchronous send completion, seeded / lowest-rank-first / "
                "highest-rank-first wildcard matching, collectives, no-progress watchdog). (1) dispatcher alone: worlds of 2..4 (thorough 5) ranks, max_workers in "
                "{all, size-1, 1}, 0..5 (thorough 9) tasks: termination of all ranks, one result per task on the root, identical collectives. (2) the repository "
                "imported a second time with MPI mode on (only the package name in imports is rewritten): Catalog.from_dataframe + Catalog(path) on 2..4 (thorough 5) "
                "ranks, patch ids / given centres, chunk sizes {64, 400} (thorough + {1, 399}), worker limits; tree building + crosscorrelate + HistData on 2..3 "
                "(thorough 4) ranks: root results compared with a single-process run, loaded catalog identical on all ranks",
                evaluations=len(res), distinct_nontrivial=len(res), violations=[dict(id=f"bounded:{n}", detail=d) for n, d in fails][:12],
                samples=[n for n, _, _ in res[:3]], wall_s=round(time.time() - t0, 2), note="simulation of MPI semantics; labelled bounded, not counted as proved")


# ---------------------------------------------------------------------------------------------------------
# MPI catalog creation: writer, processing ranks, scatter  (functions defined under `if parallel.use_mpi():`)
# ---------------------------------------------------------------------------------------------------------

class Senders:
    """ghost model of the ranks that send patch dictionaries to the writer: S senders, sender s sends K(s) data messages and
    then one EndOfQueue; MPI keeps the order per sender, the wildcard receive takes the head of an arbitrary unfinished stream"""

    def __init__(self, ctx, name):
        self.ctx, self.name = ctx, name
        I, B = z3.IntSort(), z3.BoolSort()
        self.S = ctx.fresh_int("num_senders", lo=1, size=True)
        self.K = ctx.fresh_fn("messages_of_sender", I, I)
        s = bv("s")
        ctx.assume(forall([s], z3.Implies(z3.And(s >= 0, s < self.S.t), self.K(s) >= 0), patterns=[self.K(s)]), "model:message counts")
        self.consumed = lambda q: z3.IntVal(0)
        self.finished = lambda q: z3.BoolVal(False)
        self.processed = SNum(z3.IntVal(0))
        self.last = None

    def vc_havoc(self, c, name):
        I, B = z3.IntSort(), z3.BoolSort()
        f, g = c.fresh_fn("consumed", I, I), c.fresh_fn("finished", I, B)
        self.consumed, self.finished = (lambda q: f(q)), (lambda q: g(q))
        self.processed = c.fresh_int("processed", lo=0)
        self.last = None

    def vc_snapshot(self):
        p = Senders.__new__(Senders)
        p.__dict__.update(self.__dict__)
        return p

    def unfinished_ind(self, fin=None):
        fin = fin or self.finished
        return lambda q: z3.If(fin(q), z3.RealVal(0), z3.RealVal(1))

    def remaining_ind(self, cons=None):
        cons = cons or self.consumed
        return lambda q: z3.ToReal(self.K(q) - cons(q))

    def unfinished(self):
        return SNum(sigma.total(self.unfinished_ind(), self.S.t))

    def remaining(self):
        return SNum(sigma.total(self.remaining_ind(), self.S.t))

    def wf(self):
        s = bv("s")
        return SBool(z3.ForAll([s], z3.Implies(z3.And(s >= 0, s < self.S.t),
                                               z3.And(self.consumed(s) >= 0, self.consumed(s) <= self.K(s), z3.Implies(self.finished(s), self.consumed(s) == self.K(s))))))

    def recv(self, source=None, tag=None):
        PAR = mod("yaw.utils.parallel")
        ctx, n = self.ctx, self.name
        ctx.check(f"{n}/pre@recv:wildcard_receive_on_tag_1", source == "ANY_SOURCE" and tag == 1)
        ctx.check(f"{n}/pre@recv:some_sender_still_owes_a_message", self.unfinished() > 0, detail="a receive posted after every sender has finished blocks forever")
        s = ctx.fresh_int("matched_sender", lo=0)
        ctx.assume(z3.And(s.t < self.S.t, z3.Not(self.finished(s.t))), "model:the wildcard receive matches an arbitrary unfinished sender")
        oc, of = self.consumed, self.finished
        if ctx.branch(oc(s.t) == self.K(s.t)):
            # all data of this sender was taken: its next message is the marker
            self.finished = lambda q: z3.Or(q == s.t, of(q))
            sigma.point_update(ctx, self.unfinished_ind(of), self.unfinished_ind(self.finished), self.S.t, s.t, name="one sender finished")
            return PAR.EndOfQueue
        self.consumed = lambda q: z3.If(q == s.t, oc(q) + 1, oc(q))
        sigma.point_update(ctx, self.remaining_ind(oc), self.remaining_ind(self.consumed), self.S.t, s.t, name="one message consumed")
        self.last = ("PATCHES", s, SNum(oc(s.t)))
        return self.last


@unit(P, "writer_task[MPI]", fuc=["yaw.catalog.catalog:writer_task"], trusted=["MPI point-to-point model (order kept per sender only)"])
def u_writer_mpi(ctx):
    """the writer processes every message of every sending rank exactly once and finalises only after the end marker of every
    sender - for any number of senders, any message counts and any interleaving the per-sender order permits"""
    C = mod("yaw.catalog.catalog")
    name = "C06/writer_task"
    fn = shadow.reload_function("yaw.catalog.catalog:writer_task")
    snd = Senders(ctx, name)
    log = dict(finalized=0)

    class WriterCls(C.CatalogWriter):
        def __init__(self, cache_directory, *, chunk_info, overwrite=True, buffersize=-1):
            self.writers = {}
            log["args"] = (cache_directory, chunk_info, overwrite, buffersize)

        def process_patches(self, patches):
            ctx.check(f"{name}/pre@process_patches:the_message_just_received", patches is snd.last and patches is not None)
            snd.last = None
            snd.processed = snd.processed + 1

        def finalize(self):
            log["finalized"] += 1
            log["snapshot"] = (snd.unfinished(), snd.remaining(), snd.processed)
    import types
    par = types.SimpleNamespace(COMM=snd)
    site = find_site("yaw.catalog.catalog:writer_task", "num_senders")
    total = SNum(sigma.total(lambda q: z3.ToReal(snd.K(q)), snd.S.t))

    def inv(L_):
        return {"senders_well_formed": snd.wf(), "num_senders_counts_the_unfinished_senders": And(L_.num_senders == snd.unfinished()),
                "processed_plus_remaining_is_everything": And(snd.processed + snd.remaining() == total, snd.last is None), "not_finalised": log["finalized"] == 0}
    sigma.congruence(ctx, snd.unfinished_ind(), lambda q: z3.RealVal(1), snd.S.t, name="no sender has finished initially")
    sigma.const_sum(ctx, z3.RealVal(1), snd.S.t)
    with Patches() as pt, use_loops({site: LoopSpec(inv=inv, fresh={"patches": lambda L_: ("PATCHES", "?")})}):
        pt.set(C, "CatalogWriter", WriterCls)
        pt.set(C, "parallel", par)
        pt.set(C, "MPI", types.SimpleNamespace(ANY_SOURCE="ANY_SOURCE"))
        ctx.ghost.setdefault("loop_ghosts", {})[site] = [snd]
        ctx.canary()
        expect_no_exception(ctx, call(fn, "/cache", chunk_info="INFO", num_senders=snd.S, overwrite=True, buffersize=7), name)
    ctx.check(f"{name}/post:finalised_once", log["finalized"] == 1)
    sigma.member_le_sum(ctx, snd.unfinished_ind(), snd.S.t, name="indicators are not negative")
    s = ctx.fresh_int("s", lo=0)
    ctx.assume(s.t < snd.S.t, "post:arbitrary sender")
    ctx.check(f"{name}/post:every_sender_finished_and_all_its_messages_were_taken", SBool(z3.And(snd.finished(s.t), snd.consumed(s.t) == snd.K(s.t))),
              detail="stopping at the first end marker loses the pending messages of the other senders")
    sigma.zero(ctx, snd.remaining_ind(), snd.S.t, name="nothing remains")
    ctx.check(f"{name}/post:every_message_processed_exactly_once", snd.processed == total)
    ctx.check(f"{name}/post:writer_configured_as_requested", log["args"] == ("/cache", "INFO", True, 7))


@unit(P, "chunk_processing_task[MPI]", fuc=["yaw.catalog.catalog:chunk_processing_task"], cases=[dict(centres=c) for c in (False, True)])
def u_cpt(ctx, centres):
    """a processing rank, for every chunk of the stream: takes its share from scatter_data_chunk, splits it into patches with the
    3-d centres and sends the result to the writer on tag 1; afterwards exactly one EndOfQueue to the writer (after its last data
    message: MPI keeps this order), then one Barrier on the worker communicator"""
    C = mod("yaw.catalog.catalog")
    PAR = mod("yaw.utils.parallel")
    from . import C09 as _C09
    name = "C06/chunk_processing_task"
    fn = shadow.reload_function("yaw.catalog.catalog:chunk_processing_task")
    stream = _C09.ChunkStream(ctx)
    sends, coll = [], []

    class G:
        count = 0

        def vc_havoc(self, c, n_):
            self.count = c.fresh_int(n_, lo=0)

        def vc_snapshot(self):
            g = G()
            g.count = self.count
            return g
    ghost = G()

    class WorldComm:
        def send(self, obj, dest=None, tag=None):
            if obj is PAR.EndOfQueue:
                sends.append(("END", dest, tag, ghost.count))
                return
            ctx.check(f"{name}/pre@send:patches_of_the_next_chunk_to_the_writer_on_tag_1", And(obj[0] == "PATCHES", obj[1] == ghost.count, dest == 7, tag == 1))
            ghost.count = ghost.count + 1

    class WorkerComm:
        def Barrier(self):
            coll.append(("Barrier", len(sends)))
    import types
    wcomm = WorkerComm()
    cfg = types.SimpleNamespace(reader_rank=0, writer_rank=7)

    class Cen:
        def to_3d(self):
            return "XYZ"
    site = find_site("yaw.catalog.catalog:chunk_processing_task", "chunk_iter")
    par = types.SimpleNamespace(COMM=WorldComm(), world_to_comm_rank=lambda comm, wr: ("COMM_RANK", comm, wr))
    with Patches() as pt, use_loops({site: LoopSpec(inv=lambda L_: And(ghost.count == L_.j, len(sends) == 0, len(coll) == 0),
                                                    fresh={"worker_chunk": lambda L_: "?", "patches": lambda L_: "?"})}):
        pt.set(C, "parallel", par)
        pt.set(C, "scatter_data_chunk", lambda comm, reader_rank, chunk: ("SHARE", chunk[1], comm is wcomm and reader_rank == ("COMM_RANK", wcomm, 0)))
        pt.set(C, "split_into_patches", lambda share, pc: ("PATCHES", share[1], share[2] and pc == ("XYZ" if centres else None)))
        ctx.ghost.setdefault("loop_ghosts", {})[site] = [ghost]
        ctx.canary()
        expect_no_exception(ctx, call(fn, wcomm, cfg, Cen() if centres else None, stream), name)
    ctx.check(f"{name}/post:one_message_per_chunk", ghost.count == stream.K)
    ctx.check(f"{name}/post:one_end_marker_to_the_writer_after_the_last_message", len(sends) == 1 and sends[0][1] == 7 and sends[0][2] == 1 and bool(sends[0][3] == stream.K))
    ctx.check(f"{name}/post:one_barrier_after_the_end_marker", coll == [("Barrier", 1)])


@unit(P, "scatter_data_chunk[MPI]", fuc=["yaw.catalog.catalog:scatter_data_chunk"], cases=[dict(size=s, role=r) for s in (1, 2, 4) for r in ("reader", "other") if not (s == 1 and r == "other")],
      kind="bounded", trusted=["np.array_split"])
def u_scatter(ctx, size, role):
    """the reader splits the chunk into one part per rank of the worker communicator, sends part r to rank r (tag 2) and keeps its
    own; every other rank receives its part from the reader.  BOUNDED in the communicator size (1, 2, 4)."""
    C = mod("yaw.catalog.catalog")
    name = "C06/scatter_data_chunk"
    fn = shadow.reload_function("yaw.catalog.catalog:scatter_data_chunk")
    log = []

    class Comm:
        def __init__(self, rank):
            self.rank = rank

        def Get_size(self):
            return size

        def Get_rank(self):
            return self.rank

        def send(self, obj, dest=None, tag=None):
            log.append(("send", obj, dest, tag))

        def recv(self, source=None, tag=None):
            log.append(("recv", source, tag))
            return ("PART", "mine")
    import types
    with Patches() as pt:
        pt.set(C, "np", types.SimpleNamespace(array_split=lambda chunk, n: [("PART", chunk, k, n) for k in range(n)]))
        ctx.canary()
        res = expect_no_exception(ctx, call(fn, Comm(0 if role == "reader" else size - 1), 0, "CHUNK"), name)
    if role == "reader":
        ctx.check(f"{name}/post:every_other_rank_gets_its_part_once", sorted(log, key=lambda e: e[2]) == [("send", ("PART", "CHUNK", r, size), r, 2) for r in range(1, size)])
        ctx.check(f"{name}/post:reader_keeps_its_own_part", res == ("PART", "CHUNK", 0, size))
    else:
        ctx.check(f"{name}/post:receives_its_part_from_the_reader", log == [("recv", 0, 2)] and res == ("PART", "mine"))


# ---------------------------------------------------------------------------------------------------------
# structural obligation over the whole package: no world collective is rank dependent
# ---------------------------------------------------------------------------------------------------------

WORLD_COLLECTIVES = {"bcast", "Bcast", "Barrier", "gather", "Split", "bcast_instance", "bcast_array", "iter_unordered", "ranks_on_same_node",
                     "world_to_comm_rank", "get_bcast_method"}
RANK_TESTS = {"on_root", "on_worker", "Get_rank"}


def _calls(nodes):
    import ast as _ast
    out = []
    for n in nodes:
        for x in _ast.walk(n):
            if isinstance(x, _ast.Call):
                f = x.func
                name = f.attr if isinstance(f, _ast.Attribute) else getattr(f, "id", None)
                if name in WORLD_COLLECTIVES:
                    # collectives on a sub-communicator (a local variable / parameter other than parallel.COMM) are a matter of the ranks in it
                    if isinstance(f, _ast.Attribute) and isinstance(f.value, _ast.Name) and f.value.id not in ("parallel", "COMM") and name in ("Barrier", "bcast", "Bcast", "gather", "Split"):
                        continue
                    out.append(name)
    return out


def _rank_dependent(test):
    import ast as _ast
    for x in _ast.walk(test):
        if isinstance(x, _ast.Call):
            f = x.func
            name = f.attr if isinstance(f, _ast.Attribute) else getattr(f, "id", None)
            if name in RANK_TESTS:
                return True
    return False


@unit(P, "collectives.not_rank_dependent", kind="structural")
def u_collectives(ctx):
    """generated from the current source of every module: in a branch whose condition depends on the rank (on_root(), on_worker(),
    Get_rank()) the two sides issue the same world collectives (normally none), and no rank-dependent branch leaves the function
    (return / raise / break / continue) while world collectives still follow - otherwise some ranks wait in a collective the others
    never enter.  Functions whose rank-dependent branches are proved separately against the peer models are listed as exempt."""
    import ast as _ast
    import os
    ctx.canary()
    root = os.path.join(shadow.repo_root(), "src", "yaw")
    exempt = {"_mpi_iter_unordered", "scatter_data_chunk", "write_patches", "get_comm", "ranks_on_same_node", "world_to_comm_rank", "bcast_array", "bcast_instance"}
    checked = 0
    for dirpath, _, files in os.walk(root):
        for fn in sorted(files):
            if not fn.endswith(".py"):
                continue
            path = os.path.join(dirpath, fn)
            rel = os.path.relpath(path, root)
            tree = _ast.parse(open(path, encoding="utf-8").read())
            for func in [n for n in _ast.walk(tree) if isinstance(n, (_ast.FunctionDef, _ast.AsyncFunctionDef))]:
                if func.name in exempt:
                    continue
                all_calls = _calls(func.body)
                for node in _ast.walk(func):
                    if isinstance(node, _ast.If) and _rank_dependent(node.test):
                        checked += 1
                        a, b = _calls(node.body), _calls(node.orelse)
                        ctx.check(f"C06/collectives/{rel}:{func.name}:{node.lineno}/same_collectives_on_both_sides", a == b,
                                  detail=f"if-branch {a} else-branch {b}")
                        leaves = [type(x).__name__ for blk in (node.body, node.orelse) for s in blk for x in _ast.walk(s)
                                  if isinstance(x, (_ast.Return, _ast.Raise, _ast.Break, _ast.Continue))]
                        later = [c for c in _calls([s for s in _ast.walk(func) if isinstance(s, _ast.stmt) and getattr(s, "lineno", 0) > node.end_lineno]) ]
                        ctx.check(f"C06/collectives/{rel}:{func.name}:{node.lineno}/no_exit_from_a_rank_dependent_branch_before_later_collectives",
                                  not (leaves and later), detail=f"{leaves} while {later} follow")
    ctx.check("C06/collectives/rank_dependent_branches_checked", checked >= 30)


# a progress display must not change what a rank does: on every rank the wrapped loop is iterated completely (a worker rank that
# skips its loop never takes part in the point-to-point exchange and the collectives inside it) - the C02 unit on
# Indicator.__iter__, root and non-root, run here as well
def _register_shared():
    from . import C02 as _C02
    unit(P, "Indicator.__iter__", fuc=["yaw.utils.logging:Indicator.__iter__", "yaw.utils.logging:Indicator.__init__"],
         cases=[dict(root=r) for r in (True, False)])(_C02.u_indicator)


# _register_shared() is called by the driver after this module is fully imported (no import cycles)


# under MPI the writer rank sees the patch ids in the order in which the pieces of the processing ranks arrive: the id list it stores must
# not depend on that order (sorted) - the C08 unit on CatalogWriter.finalize, run here as well
def _register_shared_round9():
    from . import C08 as _C08
    unit(P, "CatalogWriter.finalize", fuc=["yaw.catalog.catalog:CatalogWriter.finalize"],
         cases=[dict(K=k, empty=False, fail=False) for k in (2, 3)], kind="bounded")(_C08.u_finalize)


# _register_shared_round9() is called by the driver after this module is fully imported (no import cycles)
